package main

import (
	"go/ast"
	"go/constant"
	"go/token"
	"go/types"
	"sort"
	"strings"
)

// Site is an AST node inside a function.
type Site struct {
	F *FuncInfo
	N ast.Node
}

func (ix *PkgIndex) at(s Site) obSite { return at(ix.M, s.N.Pos()) }

// FindCalls returns every call in the package (all functions and literals) accepted by pred.
func (ix *PkgIndex) FindCalls(pred func(f *FuncInfo, call *ast.CallExpr) bool) []Site {
	var out []Site
	for _, f := range ix.All {
		inspectNoLit(f.Body(), func(n ast.Node) bool {
			if call, ok := n.(*ast.CallExpr); ok && pred(f, call) {
				out = append(out, Site{f, call})
			}
			return true
		})
	}
	return out
}

// FindNodes returns every AST node in the package accepted by pred.
func (ix *PkgIndex) FindNodes(pred func(f *FuncInfo, n ast.Node) bool) []Site {
	var out []Site
	for _, f := range ix.All {
		inspectNoLit(f.Body(), func(n ast.Node) bool {
			if pred(f, n) {
				out = append(out, Site{f, n})
			}
			return true
		})
	}
	return out
}

// nodesIn returns the AST nodes inside function f (own body, literals excluded) accepted by pred.
func nodesIn(f *FuncInfo, pred func(n ast.Node) bool) []ast.Node {
	var out []ast.Node
	inspectNoLit(f.Body(), func(n ast.Node) bool {
		if pred(n) {
			out = append(out, n)
		}
		return true
	})
	return out
}

// nodesDeep is nodesIn but descends into literals too.
func nodesDeep(root ast.Node, pred func(n ast.Node) bool) []ast.Node {
	var out []ast.Node
	ast.Inspect(root, func(n ast.Node) bool {
		if n != nil && pred(n) {
			out = append(out, n)
		}
		return true
	})
	return out
}

// vertexSet maps AST nodes to their vertices.
func (g *FG) vertexSet(ns []ast.Node) map[*GNode]bool {
	out := map[*GNode]bool{}
	for _, n := range ns {
		if x := g.NodeOf(n); x != nil {
			out[x] = true
		}
	}
	return out
}

// DominatedByNodes: every path from entry to b passes a vertex of set (b itself excluded).
func (g *FG) DominatedByNodes(b *GNode, set map[*GNode]bool) (bool, string) {
	if set[b] {
		return true, ""
	}
	seen, parent := g.ReachFromEntry(func(x *GNode) bool { return set[x] }, nil)
	if seen[b] && !set[g.Entry] {
		return false, g.pathLines(parent, b)
	}
	return true, ""
}

// ReachFromEdge: vertices reachable after crossing edge e (e.To included unless blocked).
func (g *FG) ReachFromEdge(e *GEdge, blockNode func(*GNode) bool) (map[*GNode]bool, map[*GNode]*GNode) {
	if blockNode != nil && blockNode(e.To) {
		return map[*GNode]bool{}, map[*GNode]*GNode{}
	}
	seen, parent := g.Reach([]*GNode{e.To}, blockNode, nil)
	seen[e.To] = true
	return seen, parent
}

// InCycle reports whether vertex x can reach itself.
func (g *FG) InCycle(x *GNode) bool {
	seen, _ := g.Reach([]*GNode{x}, nil, nil)
	return seen[x]
}

// DominatedUp decides whether site n of f is guarded by an edge accepted by
// gen(f') at some level of every static call chain leading to it: locally, or
// (for unexported declarations whose value is never taken) at every call site,
// recursively; literals that run in place continue at their creation site.
// dominatedUpExempt: set by a rule for the duration of its DominatedUp queries (the checker runs one pass at a time).
var dominatedUpExempt func(ix *PkgIndex, call *ast.CallExpr) bool

func (ix *PkgIndex) DominatedUp(f *FuncInfo, n ast.Node, gen func(fi *FuncInfo) func(*GEdge) bool, depth int) (bool, string) {
	g := ix.FG(f)
	x := g.NodeOf(n)
	if x == nil {
		return false, "site not found in flow graph of " + f.Name
	}
	ok, why := g.DominatedByEdges(x, gen(f))
	if ok {
		return true, ""
	}
	where := f.Name + " (" + ix.M.posStr(n.Pos()) + ", unguarded " + why + ")"
	if depth > 6 {
		return false, "not guarded in " + where + ", call chain too deep"
	}
	if f.Lit != nil {
		switch ix.Use[f.Lit] {
		case LitCalled, LitOnceDo, LitGo, LitDefer:
			// the literal's body runs only if its creation site is reached
			return ix.DominatedUp(ix.Parent[f.Lit], f.Lit, gen, depth+1)
		}
		return false, "not guarded in " + where + ": literal stored/passed on"
	}
	if f.Obj == nil || ast.IsExported(f.Obj.Name()) {
		return false, "not guarded in " + where + ": exported entry point"
	}
	if esc := ix.Escapes[f.Obj.Origin()]; len(esc) > 0 {
		return false, "not guarded in " + where + ": function value taken at " + ix.M.posStr(esc[0])
	}
	sites := ix.Calls[f.Obj.Origin()]
	if len(sites) == 0 {
		return false, "not guarded in " + where + ": no static call sites"
	}
	for _, cs := range sites {
		if dominatedUpExempt != nil && dominatedUpExempt(ix, cs.Call) {
			continue // a call site the obligation does not apply to (named by the rule that set the hook)
		}
		if ok, why := ix.DominatedUp(cs.In, cs.Call, gen, depth+1); !ok {
			return false, why + " ← via " + f.Name
		}
	}
	return true, ""
}

// isRecvFrom: is e a receive expression `<-X` where X satisfies isX?
func isRecvFrom(e ast.Node, isX func(ast.Expr) bool) bool {
	u, ok := e.(*ast.UnaryExpr)
	return ok && u.Op == token.ARROW && isX(u.X)
}

// atomicBoolCall matches x.<method>() where x selects field fld of type atomic.Bool (or similar).
func fieldMethodCall(info *types.Info, n ast.Node, fld *types.Var, method string) *ast.CallExpr {
	call, ok := n.(*ast.CallExpr)
	if !ok {
		return nil
	}
	sel, ok := unparen(call.Fun).(*ast.SelectorExpr)
	if !ok || sel.Sel.Name != method {
		return nil
	}
	if !isField(info, sel.X, fld) {
		return nil
	}
	return call
}

// isEmptySliceExpr: x[:0], nil, make(T, 0[, n]), T{} — an emptied slice.
func isEmptySliceExpr(info *types.Info, e ast.Expr) bool {
	switch x := unparen(e).(type) {
	case *ast.SliceExpr:
		if x.High == nil {
			return false
		}
		if x.Low != nil {
			if lo, ok := constInt(info, x.Low); !ok || lo != 0 {
				return false
			}
		}
		v, ok := constInt(info, x.High)
		return ok && v == 0
	case *ast.Ident:
		return isNilIdent(info, x)
	case *ast.CallExpr:
		if builtinName(info, x) == "make" && len(x.Args) >= 2 {
			v, ok := constInt(info, x.Args[1])
			return ok && v == 0
		}
	case *ast.CompositeLit:
		return len(x.Elts) == 0
	}
	return false
}

// assignsTo returns the RHS assigned to an LHS accepted by isLHS in statement n (nil when n is not such an assignment).
func assignRHS(n ast.Node, isLHS func(ast.Expr) bool) ast.Expr {
	as, ok := n.(*ast.AssignStmt)
	if !ok {
		return nil
	}
	for i, l := range as.Lhs {
		if isLHS(l) {
			if len(as.Lhs) == len(as.Rhs) {
				return as.Rhs[i]
			}
			if len(as.Rhs) == 1 {
				return as.Rhs[0]
			}
		}
	}
	return nil
}

// isAppendTo: e is append(X, ...) with X accepted by isX.
func isAppendTo(info *types.Info, e ast.Expr, isX func(ast.Expr) bool) bool {
	call, ok := unparen(e).(*ast.CallExpr)
	if !ok || builtinName(info, call) != "append" || len(call.Args) == 0 {
		return false
	}
	return isX(call.Args[0])
}

// isLenOf: e is len(X) with X accepted.
func isLenOf(info *types.Info, e ast.Expr, isX func(ast.Expr) bool) bool {
	call, ok := unparen(e).(*ast.CallExpr)
	if !ok || builtinName(info, call) != "len" || len(call.Args) != 1 {
		return false
	}
	return isX(call.Args[0])
}

// sameVar: e is an identifier denoting v.
func sameVar(info *types.Info, e ast.Expr, v types.Object) bool {
	o := objOf(info, e)
	return o != nil && o == v
}

// closeOf: n is close(X) with X accepted.
func isCloseOf(info *types.Info, n ast.Node, isX func(ast.Expr) bool) bool {
	call, ok := n.(*ast.CallExpr)
	if !ok || builtinName(info, call) != "close" || len(call.Args) != 1 {
		return false
	}
	return isX(call.Args[0])
}

// enclosingLoop: is node n (in f) inside a for/range statement of f's own body?
func inLoop(f *FuncInfo, n ast.Node) bool {
	found := false
	var stack []ast.Node
	ast.Inspect(f.Body(), func(x ast.Node) bool {
		if x == nil {
			stack = stack[:len(stack)-1]
			return false
		}
		if x == n {
			for _, s := range stack {
				switch s.(type) {
				case *ast.ForStmt, *ast.RangeStmt:
					found = true
				}
			}
			return false
		}
		if _, ok := x.(*ast.FuncLit); ok {
			return false
		}
		stack = append(stack, x)
		return true
	})
	return found
}

// indexPairing checks, in fn, that every assignment M[k] = R into an int-valued index map is adjacent, in the same statement
// list, to `U = append(U, x)` and records the position x is appended at: len(U) − 1 when the append comes directly before,
// len(U) when it comes directly after (linear forms, so 1 subtracted on either side or written as -1+len(U) is the same).
// Returns the number of pairs and a description of the first violation ("" when fine).
func indexPairing(info *types.Info, fn *FuncInfo) (int, string, token.Pos) {
	n := 0
	bad := ""
	var badPos token.Pos
	appendOf := func(st ast.Stmt) (string, bool) {
		as, ok := st.(*ast.AssignStmt)
		if !ok || len(as.Lhs) != 1 || len(as.Rhs) != 1 {
			return "", false
		}
		call, ok := unparen(as.Rhs[0]).(*ast.CallExpr)
		if !ok || builtinName(info, call) != "append" || len(call.Args) != 2 || call.Ellipsis.IsValid() || exprStr(call.Args[0]) != exprStr(as.Lhs[0]) {
			return "", false
		}
		return exprStr(as.Lhs[0]), true
	}
	check := func(list []ast.Stmt) {
		for i, st := range list {
			as, ok := st.(*ast.AssignStmt)
			if !ok || len(as.Lhs) != 1 || len(as.Rhs) != 1 {
				continue
			}
			ie, ok := unparen(as.Lhs[0]).(*ast.IndexExpr)
			if !ok {
				continue
			}
			mt, ok := info.Types[ie.X].Type.Underlying().(*types.Map)
			if !ok {
				continue
			}
			if b, ok := mt.Elem().Underlying().(*types.Basic); !ok || b.Kind() != types.Int {
				continue
			}
			n++
			var u string
			var want int64
			found := false
			if i > 0 {
				if x, ok := appendOf(list[i-1]); ok {
					u, want, found = x, -1, true
				}
			}
			if !found && i+1 < len(list) {
				if x, ok := appendOf(list[i+1]); ok {
					u, want, found = x, 0, true
				}
			}
			if !found {
				bad, badPos = "index stored without an adjacent append of the element it refers to", as.Pos()
				continue
			}
			terms, k := linearForm(info, as.Rhs[0])
			if !(len(terms) == 1 && terms["len("+u+")"] == 1 && k == want) {
				pos := "len(" + u + ") − 1 (after the append)"
				if want == 0 {
					pos = "len(" + u + ") (before the append)"
				}
				bad, badPos = "the index recorded for a newly appended element is "+exprStr(as.Rhs[0])+", not "+pos+": its position", as.Pos()
			}
		}
	}
	ast.Inspect(fn.Body(), func(nd ast.Node) bool {
		switch b := nd.(type) {
		case *ast.BlockStmt:
			check(b.List)
		case *ast.CaseClause:
			check(b.Body)
		case *ast.CommClause:
			check(b.Body)
		}
		return true
	})
	return n, bad, badPos
}

// linearForm folds an integer expression built from +, -, parentheses, conversions and constants into
// (coefficient per atom rendered with conversions stripped, constant part). ok=false for anything else at top level of a term
// (such a term becomes an opaque atom with coefficient ±1, which is still exact for comparison purposes).
func linearForm(info *types.Info, e ast.Expr) (map[string]int, int64) {
	terms := map[string]int{}
	var k int64
	var walk func(e ast.Expr, sign int)
	walk = func(e ast.Expr, sign int) {
		e = unparen(e)
		if tv, ok := info.Types[e]; ok && tv.Value != nil {
			if v, exact := constant.Int64Val(constant.ToInt(tv.Value)); exact {
				k += int64(sign) * v
				return
			}
		}
		switch x := e.(type) {
		case *ast.BinaryExpr:
			if x.Op == token.ADD {
				walk(x.X, sign)
				walk(x.Y, sign)
				return
			}
			if x.Op == token.SUB {
				walk(x.X, sign)
				walk(x.Y, -sign)
				return
			}
		case *ast.UnaryExpr:
			if x.Op == token.SUB {
				walk(x.X, -sign)
				return
			}
			if x.Op == token.ADD {
				walk(x.X, sign)
				return
			}
		case *ast.CallExpr:
			// integer conversion T(x)
			if tv, ok := info.Types[x.Fun]; ok && tv.IsType() && len(x.Args) == 1 {
				if b, isB := tv.Type.Underlying().(*types.Basic); isB && b.Info()&types.IsInteger != 0 {
					walk(x.Args[0], sign)
					return
				}
			}
		}
		terms[exprStr(e)] += sign
		if terms[exprStr(e)] == 0 {
			delete(terms, exprStr(e))
		}
	}
	walk(e, 1)
	return terms, k
}

// ruleTruncateCounts — structural necessary condition of "a truncated string holds at most limit characters" for the
// truncate(limit, s) helpers: every character the scan keeps is counted against the limit.
//   - a range loop over the string keeps what it steps over (the result is a prefix s[:i]): every path from the loop body
//     back to the loop head increments the counter (paths that leave the loop are not constrained);
//   - in a plain for loop a character is kept by a write to the builder: inside one loop no write reaches a write (itself on
//     the next iteration, or another) without an increment in between.
//
// The counter is the local integer compared with the limit parameter.
func ruleTruncateCounts(c *Ctx, ix *PkgIndex, rule, short string) {
	fn := c.Fn(ix, rule, "truncate")
	if fn == nil {
		return
	}
	info := ix.Pkg.TypesInfo
	sig := fn.Obj.Type().(*types.Signature)
	if sig.Params().Len() != 2 {
		c.Undecided(rule, short+"|truncate|every kept character is counted", at(ix.M, fn.Pos()), "unexpected signature")
		return
	}
	limit := sig.Params().At(0)
	counters := map[types.Object]bool{}
	ast.Inspect(fn.Body(), func(n ast.Node) bool {
		be, ok := n.(*ast.BinaryExpr)
		if !ok {
			return true
		}
		switch be.Op {
		case token.LSS, token.LEQ, token.GTR, token.GEQ:
		default:
			return true
		}
		for _, p := range [][2]ast.Expr{{be.X, be.Y}, {be.Y, be.X}} {
			// the limit itself, or a budget derived from it (n := limit - count, the parameter of an expanded helper)
			isLimit := sameVar(info, p[0], limit)
			if !isLimit {
				// an expression over the limit (limit - count, after a helper's budget parameter was substituted)
				if _, isID := unparen(p[0]).(*ast.Ident); !isID {
					ast.Inspect(p[0], func(m ast.Node) bool {
						if id, ok := m.(*ast.Ident); ok && info.Uses[id] == types.Object(limit) {
							isLimit = true
						}
						return true
					})
				}
			}
			if !isLimit {
				if lv, ok := objOf(info, p[0]).(*types.Var); ok && !lv.IsField() {
					if d := ix.FG(fn).LocalDef(lv); d != nil {
						ast.Inspect(d, func(m ast.Node) bool {
							if id, isID := m.(*ast.Ident); isID && info.Uses[id] == types.Object(limit) {
								isLimit = true
							}
							return true
						})
					}
				}
			}
			if isLimit {
				if v, ok := objOf(info, p[1]).(*types.Var); ok && !v.IsField() && v != limit {
					counters[v] = true
				}
			}
		}
		return true
	})
	// … or the remaining budget: a local compared with zero that is counted down (n := limit - count; for … && n > 0 { …; n-- })
	budgets := map[types.Object]bool{}
	ast.Inspect(fn.Body(), func(n ast.Node) bool {
		be, ok := n.(*ast.BinaryExpr)
		if !ok {
			return true
		}
		switch be.Op {
		case token.GTR, token.GEQ, token.NEQ, token.LSS, token.LEQ, token.EQL:
		default:
			return true
		}
		for _, p := range [][2]ast.Expr{{be.X, be.Y}, {be.Y, be.X}} {
			if k, isC := constInt(info, p[1]); isC && k == 0 {
				if v, ok := objOf(info, p[0]).(*types.Var); ok && !v.IsField() {
					if b, isB := v.Type().Underlying().(*types.Basic); isB && b.Info()&types.IsInteger != 0 {
						budgets[v] = true
					}
				}
			}
		}
		return true
	})
	g := ix.FG(fn)
	incs := toSet(g.Match(func(n ast.Node) bool {
		switch s := n.(type) {
		case *ast.IncDecStmt:
			return (s.Tok == token.INC && counters[objOf(info, s.X)]) || (s.Tok == token.DEC && budgets[objOf(info, s.X)])
		case *ast.AssignStmt:
			if len(s.Lhs) != 1 {
				return false
			}
			return (s.Tok == token.ADD_ASSIGN && counters[objOf(info, s.Lhs[0])]) || (s.Tok == token.SUB_ASSIGN && budgets[objOf(info, s.Lhs[0])])
		}
		return false
	}))
	key := short + "|truncate|every kept character is counted"
	if len(counters) == 0 || len(incs) == 0 {
		c.Undecided(rule, key, at(ix.M, fn.Pos()), "character counter not found (a local compared with the limit and incremented)")
		return
	}
	bad := ""
	nLoops := 0
	ast.Inspect(fn.Body(), func(n ast.Node) bool {
		switch lp := n.(type) {
		case *ast.RangeStmt:
			if b, ok := info.Types[lp.X].Type.Underlying().(*types.Basic); !ok || b.Info()&types.IsString == 0 {
				return true
			}
			nLoops++
			var body, head *GNode
			for b, h := range g.head {
				if b.Stmt == ast.Stmt(lp) {
					switch b.Kind.String() {
					case "RangeBody":
						body = h
					case "RangeLoop":
						head = h
					}
				}
			}
			if body == nil || head == nil {
				bad = "range loop blocks not found"
				return true
			}
			seen, parent := g.Reach([]*GNode{body}, func(x *GNode) bool { return incs[x] }, nil)
			if seen[head] {
				bad = "the scan steps over a character without counting it (" + g.pathLines(parent, head) + "): the returned prefix can hold more than limit characters"
			}
		case *ast.ForStmt:
			nLoops++
			var writes []*GNode
			for _, x := range g.Match(func(m ast.Node) bool {
				call, ok := m.(*ast.CallExpr)
				if !ok || m.Pos() < lp.Body.Pos() || m.End() > lp.Body.End() {
					return false
				}
				cf := callee(info, call)
				return cf != nil && strings.HasPrefix(cf.FullName(), "(*strings.Builder).Write")
			}) {
				writes = append(writes, x)
			}
			ws := toSet(writes)
			for _, w := range writes {
				seen, _ := g.Reach([]*GNode{w}, func(x *GNode) bool { return incs[x] }, nil)
				for y := range seen {
					if ws[y] {
						bad = "a character is written to the result at " + ix.M.posStr(w.N.Pos()) + " and the loop continues to the next write without counting it"
					}
				}
			}
		}
		return true
	})
	c.Analysed(fn)
	c.Check(bad == "" && nLoops >= 1, rule, key, at(ix.M, fn.Pos()), itoa(nLoops)+" scanning loop(s), "+itoa(len(incs))+" counting site(s)", bad)
}

// ---- effects through helpers --------------------------------------------------------------------------------------------

// declByObj returns the declared (non-literal) function of this package for a resolved callee, or nil.
func (ix *PkgIndex) declByObj(fn *types.Func) *FuncInfo {
	if fn == nil {
		return nil
	}
	for _, f := range ix.Funcs {
		if f.Obj != nil && f.Obj.Origin() == fn.Origin() {
			return f
		}
	}
	return nil
}

// hasEffect: does fn's own body (literals excluded) perform the effect directly or through static calls to declared
// functions of the package, up to the given depth?
func (ix *PkgIndex) hasEffect(fn *FuncInfo, pred func(ast.Node) bool, depth int) bool {
	hit := false
	inspectNoLit(fn.Body(), func(n ast.Node) bool {
		if hit {
			return false
		}
		if pred(n) {
			hit = true
			return false
		}
		if call, ok := n.(*ast.CallExpr); ok && depth > 0 {
			if h := ix.declByObj(callee(fn.Info(), call)); h != nil && h != fn && ix.hasEffect(h, pred, depth-1) {
				hit = true
				return false
			}
		}
		return true
	})
	return hit
}

// effectNodes returns the vertices of fn's graph that perform the effect, directly or by calling a declared function of the
// package that performs it (depth ≤ 2); via[x] is that function for indirect vertices.
func (ix *PkgIndex) effectNodes(fn *FuncInfo, pred func(ast.Node) bool) (nodes []*GNode, via map[*GNode]*FuncInfo) {
	g := ix.FG(fn)
	via = map[*GNode]*FuncInfo{}
	seen := map[*GNode]bool{}
	for _, x := range g.Match(func(n ast.Node) bool {
		if pred(n) {
			return true
		}
		if call, ok := n.(*ast.CallExpr); ok {
			if h := ix.declByObj(callee(fn.Info(), call)); h != nil && h != fn && ix.hasEffect(h, pred, 1) {
				return true
			}
		}
		return false
	}) {
		if seen[x] {
			continue
		}
		seen[x] = true
		nodes = append(nodes, x)
		// direct?
		direct := false
		inspectNoLit(x.N, func(n ast.Node) bool {
			if pred(n) {
				direct = true
			}
			return true
		})
		if !direct {
			inspectNoLit(x.N, func(n ast.Node) bool {
				if call, ok := n.(*ast.CallExpr); ok {
					if h := ix.declByObj(callee(fn.Info(), call)); h != nil && h != fn && ix.hasEffect(h, pred, 1) {
						via[x] = h
					}
				}
				return true
			})
		}
	}
	return nodes, via
}

// orderedEffects: in fn, each effect of the chain occurs at exactly one vertex and is dominated by the previous one; when two
// consecutive effects sit in the same helper call the order is required inside the helper.
func (ix *PkgIndex) orderedEffects(fn *FuncInfo, preds []func(ast.Node) bool, names []string, depth int) (bool, string) {
	g := ix.FG(fn)
	var prev []*GNode
	var prevVia map[*GNode]*FuncInfo
	for i, p := range preds {
		ns, via := ix.effectNodes(fn, p)
		if len(ns) != 1 {
			return false, names[i] + " found " + itoa(len(ns)) + " times in " + fn.Name
		}
		if i > 0 {
			if ns[0] == prev[0] {
				h := via[ns[0]]
				if h == nil || prevVia[prev[0]] != h || depth <= 0 {
					return false, names[i] + " and " + names[i-1] + " in one statement"
				}
				if ok, why := ix.orderedEffects(h, preds[i-1:i+1], names[i-1:i+1], depth-1); !ok {
					return false, why
				}
			} else if d, _ := g.DominatedByNodes(ns[0], toSet(prev)); !d {
				return false, names[i] + " is not preceded by " + names[i-1]
			}
		}
		prev, prevVia = ns, via
	}
	return true, ""
}

// mustEffectCall: vertex predicate "performs the effect on every path": the vertex matches pred directly, or it calls a
// declared function of the package whose every entry→exit path passes a vertex that does (one level).
func (ix *PkgIndex) mustEffect(fn *FuncInfo, pred func(ast.Node) bool) func(n ast.Node) bool {
	cache := map[*FuncInfo]bool{}
	always := func(h *FuncInfo) bool {
		if v, ok := cache[h]; ok {
			return v
		}
		g := ix.FG(h)
		through := toSet(g.Match(pred))
		seen, _ := g.ReachFromEntry(func(x *GNode) bool { return through[x] }, nil)
		cache[h] = len(through) > 0 && !seen[g.Exit]
		return cache[h]
	}
	return func(n ast.Node) bool {
		if pred(n) {
			return true
		}
		if call, ok := n.(*ast.CallExpr); ok {
			if h := ix.declByObj(callee(fn.Info(), call)); h != nil && h != fn && always(h) {
				return true
			}
		}
		return false
	}
}

// pureDelegate: fn's body is the single statement `return target(p1, …, pn)` (or the call alone for a function without
// results) where target is a declared function of the package called on the receiver itself or on a field path of it, and the
// arguments are exactly fn's parameters in order. Returns target, or nil.
func (ix *PkgIndex) pureDelegate(fn *FuncInfo) *FuncInfo {
	if fn == nil || fn.Lit != nil || fn.Body() == nil || len(fn.Body().List) != 1 {
		return nil
	}
	info := fn.Info()
	var call *ast.CallExpr
	switch s := fn.Body().List[0].(type) {
	case *ast.ReturnStmt:
		if len(s.Results) != 1 {
			return nil
		}
		call, _ = unparen(s.Results[0]).(*ast.CallExpr)
	case *ast.ExprStmt:
		call, _ = unparen(s.X).(*ast.CallExpr)
	}
	if call == nil || call.Ellipsis.IsValid() {
		return nil
	}
	t := ix.declByObj(callee(info, call))
	if t == nil || t == fn {
		return nil
	}
	sig := fn.Obj.Type().(*types.Signature)
	if len(call.Args) != sig.Params().Len() {
		return nil
	}
	for i, a := range call.Args {
		if !sameVar(info, a, sig.Params().At(i)) {
			return nil
		}
	}
	// called on the receiver or a field path rooted at it
	if fn.Recv() != nil {
		recv, _ := methodCall(info, call)
		if recv == nil {
			return nil
		}
		root := recv
		for {
			if sel, ok := unparen(root).(*ast.SelectorExpr); ok {
				root = sel.X
				continue
			}
			break
		}
		if !sameVar(info, root, fn.Recv()) {
			return nil
		}
	}
	return t
}

// sanitisedAt: does variable v hold, at vertex x on every path, a value produced by a sanitiser call (isSan) — i.e. the last
// assignment to v on every path is `v = san(…)` and its address was not taken since?
func sanitisedAt(g *FG, info *types.Info, v types.Object, x *GNode, isSan func(ast.Expr) bool) bool {
	facts := g.MustFlow(nil, nil, func(y *GNode, in FactSet) FactSet {
		if y.N == nil {
			return in
		}
		inspectNoLit(y.N, func(m ast.Node) bool {
			switch s := m.(type) {
			case *ast.AssignStmt:
				for i, l := range s.Lhs {
					if sameVar(info, l, v) {
						delete(in, "san")
						if len(s.Lhs) == len(s.Rhs) && isSan(s.Rhs[i]) {
							in["san"] = true
						}
					}
				}
			case *ast.UnaryExpr:
				if s.Op == token.AND && sameVar(info, s.X, v) {
					delete(in, "san")
				}
			case *ast.RangeStmt:
				for _, e := range []ast.Expr{s.Key, s.Value} {
					if e != nil && sameVar(info, e, v) {
						delete(in, "san")
					}
				}
			}
			return true
		})
		return in
	})
	return facts[x]["san"]
}

// workFunc: the function that does the work a rule is about. If fn's own body contains a node matching pred it is fn; otherwise
// the unique declared function of the package called from fn (one level) whose body does. paramOf maps a parameter of fn to the
// parameter of the returned function that receives it unchanged at that call (identity when the work is in fn itself).
func (ix *PkgIndex) workFunc(fn *FuncInfo, pred func(ast.Node) bool) (work *FuncInfo, paramOf func(*types.Var) *types.Var) {
	has := func(f *FuncInfo) bool {
		hit := false
		inspectNoLit(f.Body(), func(n ast.Node) bool {
			if pred(n) {
				hit = true
			}
			return !hit
		})
		return hit
	}
	ident := func(v *types.Var) *types.Var { return v }
	if fn == nil || has(fn) {
		return fn, ident
	}
	info := fn.Info()
	var helper *FuncInfo
	var at *ast.CallExpr
	n := 0
	tab := loadAnchors()
	for _, onlyNew := range []bool{false, true} {
		helper, at, n = nil, nil, 0
		inspectNoLit(fn.Body(), func(nd ast.Node) bool {
			if call, ok := nd.(*ast.CallExpr); ok {
				if h := ix.declByObj(callee(info, call)); h != nil && h != fn && has(h) {
					if onlyNew {
						// among several candidates prefer the one that is not itself an anchor of the pinned tree (a new helper)
						if _, known := tab.Funcs[ix.Pkg.PkgPath+"|"+h.Name]; known {
							return true
						}
					}
					if helper != h {
						n++
					}
					helper, at = h, call
				}
			}
			return true
		})
		if n == 1 {
			break
		}
	}
	if n != 1 {
		return fn, ident
	}
	hs := helper.Obj.Type().(*types.Signature)
	return helper, func(v *types.Var) *types.Var {
		for i, a := range at.Args {
			if sameVar(info, a, v) && i < hs.Params().Len() {
				return hs.Params().At(i)
			}
		}
		return nil
	}
}

// delegateUnder: when fn's body is the single statement `return h(args…)` (or the bare call) to a declared function h of the
// package, rules about fn are judged on h instead — specialised to this call: parameters of h that receive compile-time
// constants here (a shared implementation selected by a mode argument) hold those constants, and every `if` whose condition
// folds under them (through locals with a single definition, `isDelta := mode == Delta`) is replaced by the branch taken. The
// result is a FuncInfo for h whose body is that pruned syntax tree; it shares every untouched node with the original, so the
// type information applies unchanged. Without constant arguments it is h itself; when fn is no such delegation it is fn.
// The second result is kept for callers that ask whether a statement is live: it is always true on the pruned body.
func (ix *PkgIndex) delegateUnder(fn *FuncInfo) (work *FuncInfo, live func(ast.Node) bool) {
	all := func(ast.Node) bool { return true }
	if fn == nil || fn.Lit != nil || fn.Body() == nil || len(fn.Body().List) != 1 {
		return fn, all
	}
	ix.mu.Lock()
	if ix.specs == nil {
		ix.specs = map[*FuncInfo]*FuncInfo{}
	}
	if s, ok := ix.specs[fn]; ok {
		ix.mu.Unlock()
		return s, all
	}
	ix.mu.Unlock()
	work = ix.specialise(fn)
	ix.mu.Lock()
	ix.specs[fn] = work
	ix.mu.Unlock()
	return work, all
}

func (ix *PkgIndex) specialise(fn *FuncInfo) *FuncInfo {
	info := fn.Info()
	var call *ast.CallExpr
	switch s := fn.Body().List[0].(type) {
	case *ast.ReturnStmt:
		if len(s.Results) == 1 {
			call, _ = unparen(s.Results[0]).(*ast.CallExpr)
		}
	case *ast.ExprStmt:
		call, _ = unparen(s.X).(*ast.CallExpr)
	}
	if call == nil || call.Ellipsis.IsValid() {
		return fn
	}
	h := ix.declByObj(callee(info, call))
	if h == nil || h == fn || h.Body() == nil || h.Decl == nil {
		return fn
	}
	ps := h.Obj.Type().(*types.Signature).Params()
	consts := map[types.Object]constant.Value{}
	for i, a := range call.Args {
		if i >= ps.Len() {
			break
		}
		if tv, ok := info.Types[a]; ok && tv.Value != nil {
			consts[ps.At(i)] = tv.Value
		}
	}
	hinfo := h.Info()
	for p := range consts {
		// a parameter that is written or whose address is taken in h does not keep its constant
		if assignedIn(hinfo, h.Body(), p) {
			delete(consts, p)
		}
	}
	if len(consts) == 0 {
		return h
	}
	g := ix.FG(h)
	env := g.withLocals(func(e ast.Expr) (constant.Value, bool) {
		if id, ok := unparen(e).(*ast.Ident); ok {
			if v, has := consts[hinfo.Uses[id]]; has {
				return v, true
			}
		}
		return nil, false
	})
	fold := func(cond ast.Expr) (bool, bool) {
		v, known := evalConst(hinfo, cond, env)
		if !known || v.Kind() != constant.Bool {
			return false, false
		}
		return constant.BoolVal(v), true
	}
	changedAny := false
	var pruneStmt func(s ast.Stmt) ast.Stmt
	pruneList := func(list []ast.Stmt) ([]ast.Stmt, bool) {
		var out []ast.Stmt
		changed := false
		for _, s := range list {
			n := pruneStmt(s)
			if n != s {
				changed = true
			}
			if n != nil {
				out = append(out, n)
			}
		}
		return out, changed
	}
	pruneBlock := func(b *ast.BlockStmt) *ast.BlockStmt {
		if b == nil {
			return nil
		}
		list, changed := pruneList(b.List)
		if !changed {
			return b
		}
		return &ast.BlockStmt{Lbrace: b.Lbrace, List: list, Rbrace: b.Rbrace}
	}
	pruneStmt = func(s ast.Stmt) ast.Stmt {
		switch x := s.(type) {
		case *ast.BlockStmt:
			return pruneBlock(x)
		case *ast.IfStmt:
			if val, known := fold(x.Cond); known {
				changedAny = true
				var repl []ast.Stmt
				if x.Init != nil {
					repl = append(repl, x.Init)
				}
				if val {
					repl = append(repl, pruneBlock(x.Body))
				} else if x.Else != nil {
					if e := pruneStmt(x.Else); e != nil {
						repl = append(repl, e)
					}
				}
				return &ast.BlockStmt{Lbrace: x.Pos(), List: repl, Rbrace: x.End() - 1}
			}
			nb := pruneBlock(x.Body)
			var ne ast.Stmt
			if x.Else != nil {
				ne = pruneStmt(x.Else)
			}
			if nb == x.Body && ne == x.Else {
				return x
			}
			cp := *x
			cp.Body, cp.Else = nb, ne
			return &cp
		case *ast.ForStmt:
			if nb := pruneBlock(x.Body); nb != x.Body {
				cp := *x
				cp.Body = nb
				return &cp
			}
		case *ast.RangeStmt:
			if nb := pruneBlock(x.Body); nb != x.Body {
				cp := *x
				cp.Body = nb
				return &cp
			}
		case *ast.LabeledStmt:
			if ns := pruneStmt(x.Stmt); ns != x.Stmt && ns != nil {
				cp := *x
				cp.Stmt = ns
				return &cp
			}
		case *ast.SwitchStmt, *ast.TypeSwitchStmt, *ast.SelectStmt:
			var body *ast.BlockStmt
			switch y := x.(type) {
			case *ast.SwitchStmt:
				body = y.Body
			case *ast.TypeSwitchStmt:
				body = y.Body
			case *ast.SelectStmt:
				body = y.Body
			}
			var clauses []ast.Stmt
			changed := false
			for _, cl := range body.List {
				switch cc := cl.(type) {
				case *ast.CaseClause:
					if list, ch := pruneList(cc.Body); ch {
						cp := *cc
						cp.Body = list
						clauses = append(clauses, &cp)
						changed = true
						continue
					}
				case *ast.CommClause:
					if list, ch := pruneList(cc.Body); ch {
						cp := *cc
						cp.Body = list
						clauses = append(clauses, &cp)
						changed = true
						continue
					}
				}
				clauses = append(clauses, cl)
			}
			if changed {
				nb := &ast.BlockStmt{Lbrace: body.Lbrace, List: clauses, Rbrace: body.Rbrace}
				switch y := x.(type) {
				case *ast.SwitchStmt:
					cp := *y
					cp.Body = nb
					return &cp
				case *ast.TypeSwitchStmt:
					cp := *y
					cp.Body = nb
					return &cp
				case *ast.SelectStmt:
					cp := *y
					cp.Body = nb
					return &cp
				}
			}
		}
		return s
	}
	body := pruneBlock(h.Body())
	if !changedAny {
		body = h.Body()
	}
	decl := *h.Decl
	decl.Body = body
	spec := *h
	spec.Decl = &decl
	spec.Spec = consts
	return &spec
}

// fieldStore is an effective store `X.F = rhs` performed by a function body: written there directly, or by a declared helper of
// the package called from it (one level) whose body stores one of its parameters into the field — then Rhs is the argument the
// caller passes for that parameter, so the rule judges the value in the caller's terms. Mapped is false when the helper stores
// something other than a parameter (Rhs is then the helper's own expression).
type fieldStore struct {
	Field  *types.Var
	Owner  types.Type // type of the value whose field is stored
	Rhs    ast.Expr
	At     ast.Node
	Helper *FuncInfo
	Mapped bool
}

func (ix *PkgIndex) fieldStores(fn *FuncInfo, body ast.Node) []fieldStore {
	info := fn.Info()
	var out []fieldStore
	direct := func(b ast.Node, emit func(f *types.Var, owner types.Type, rhs ast.Expr, at ast.Node)) {
		inspectNoLit(b, func(nd ast.Node) bool {
			as, ok := nd.(*ast.AssignStmt)
			if !ok || len(as.Lhs) != len(as.Rhs) {
				return true
			}
			for i, l := range as.Lhs {
				if sel, isSel := unparen(l).(*ast.SelectorExpr); isSel {
					if fv, _ := fieldOf(info, sel); fv != nil {
						emit(fv, info.TypeOf(sel.X), as.Rhs[i], as)
					}
				}
			}
			return true
		})
	}
	direct(body, func(f *types.Var, owner types.Type, rhs ast.Expr, at ast.Node) {
		out = append(out, fieldStore{Field: f, Owner: owner, Rhs: rhs, At: at, Mapped: true})
	})
	inspectNoLit(body, func(nd ast.Node) bool {
		call, ok := nd.(*ast.CallExpr)
		if !ok || call.Ellipsis.IsValid() {
			return true
		}
		h := ix.declByObj(callee(info, call))
		if h == nil || h == fn || h.Body() == nil {
			return true
		}
		ps := h.Obj.Type().(*types.Signature).Params()
		direct(h.Body(), func(f *types.Var, owner types.Type, rhs ast.Expr, at ast.Node) {
			st := fieldStore{Field: f, Owner: owner, Rhs: rhs, At: call, Helper: h}
			for j := 0; j < ps.Len() && j < len(call.Args); j++ {
				if sameVar(info, rhs, ps.At(j)) && !assignedIn(info, h.Body(), ps.At(j)) {
					st.Rhs, st.Mapped = call.Args[j], true
				}
			}
			// a method called on the caller's own receiver that stores something of that receiver (s.start): the expression
			// means the same in both functions
			if !st.Mapped && h.Recv() != nil && fn.Recv() != nil {
				if recv, _ := methodCall(info, call); recv != nil && sameVar(info, recv, fn.Recv()) {
					onlyRecv, any := true, false
					ast.Inspect(rhs, func(m ast.Node) bool {
						if id, ok := m.(*ast.Ident); ok {
							if v, isV := info.Uses[id].(*types.Var); isV && !v.IsField() {
								any = true
								if v != h.Recv() {
									onlyRecv = false
								}
							}
						}
						return true
					})
					if any && onlyRecv && !assignedIn(info, h.Body(), h.Recv()) {
						st.Mapped = true
					}
				}
			}
			out = append(out, st)
		})
		return true
	})
	return out
}

// assignedIn: is variable v written (assigned, incremented, ranged into) or its address taken anywhere in body?
func assignedIn(info *types.Info, body ast.Node, v types.Object) bool {
	hit := false
	ast.Inspect(body, func(n ast.Node) bool {
		switch s := n.(type) {
		case *ast.AssignStmt:
			for _, l := range s.Lhs {
				if id, ok := unparen(l).(*ast.Ident); ok && info.Uses[id] == v {
					hit = true
				}
			}
		case *ast.IncDecStmt:
			if objOf(info, s.X) == v {
				hit = true
			}
		case *ast.UnaryExpr:
			if s.Op == token.AND && objOf(info, s.X) == v {
				hit = true
			}
		case *ast.RangeStmt:
			for _, e := range []ast.Expr{s.Key, s.Value} {
				if e != nil && objOf(info, e) == v {
					hit = true
				}
			}
		}
		return !hit
	})
	return hit
}

// lowerBoundLoop recognises the canonical hand-written lower-bound binary search — the body of sort.Search written out:
//
//	lo, hi := 0, n
//	for lo < hi {
//		mid := int(uint(lo+hi) >> 1)      // or (lo+hi)/2, (lo+hi)>>1, lo+(hi-lo)/2
//		if C(mid) { lo = mid + 1 } else { hi = mid }     // or the arms swapped
//	}
//
// and returns the variable holding the result (lo), the upper limit n, the probe variable mid and the predicate "the answer is
// at or left of mid" as (cond, pol): cond with polarity pol (+1 as written, -1 negated) is what sort.Search's closure would return.
// Nothing else may be in the loop. The statement before the loop must initialise lo to 0 and hi to n.
func lowerBoundLoop(info *types.Info, block []ast.Stmt, i int) (lo types.Object, n ast.Expr, mid types.Object, cond ast.Expr, pol int, ok bool) {
	loop, isFor := block[i].(*ast.ForStmt)
	if !isFor || loop.Init != nil || loop.Post != nil || loop.Cond == nil || i == 0 || len(loop.Body.List) != 2 {
		return
	}
	be, isB := unparen(loop.Cond).(*ast.BinaryExpr)
	if !isB || be.Op != token.LSS {
		return
	}
	lo, hi := objOf(info, be.X), objOf(info, be.Y)
	if lo == nil || hi == nil || lo == hi {
		return
	}
	// initialisation: lo, hi := 0, n  (or two statements)
	loInit, hiInit := false, false
	for j := i - 1; j >= 0 && j >= i-2; j-- {
		as, isAs := block[j].(*ast.AssignStmt)
		if !isAs || len(as.Lhs) != len(as.Rhs) {
			break
		}
		for k, l := range as.Lhs {
			switch objOf(info, l) {
			case lo:
				if v, isC := constInt(info, as.Rhs[k]); isC && v == 0 {
					loInit = true
				}
			case hi:
				hiInit, n = true, as.Rhs[k]
			}
		}
	}
	if !loInit || !hiInit {
		return
	}
	// mid := …
	ms, isAs := loop.Body.List[0].(*ast.AssignStmt)
	if !isAs || ms.Tok != token.DEFINE || len(ms.Lhs) != 1 || len(ms.Rhs) != 1 {
		return
	}
	mid = objOf(info, ms.Lhs[0])
	isLo := func(e ast.Expr) bool { return sameVar(info, e, lo) }
	isHi := func(e ast.Expr) bool { return sameVar(info, e, hi) }
	isSum := func(e ast.Expr) bool {
		b, ok := unparen(e).(*ast.BinaryExpr)
		return ok && b.Op == token.ADD && ((isLo(b.X) && isHi(b.Y)) || (isHi(b.X) && isLo(b.Y)))
	}
	halves := func(e ast.Expr, inner func(ast.Expr) bool) bool {
		b, ok := unparen(e).(*ast.BinaryExpr)
		if !ok || !inner(b.X) {
			return false
		}
		v, isC := constInt(info, b.Y)
		return isC && ((b.Op == token.QUO && v == 2) || (b.Op == token.SHR && v == 1))
	}
	stripConv := func(e ast.Expr) ast.Expr {
		for {
			c, ok := unparen(e).(*ast.CallExpr)
			if !ok || len(c.Args) != 1 {
				return unparen(e)
			}
			if tv, has := info.Types[c.Fun]; !has || !tv.IsType() {
				return unparen(e)
			}
			e = c.Args[0]
		}
	}
	midOK := false
	m := stripConv(ms.Rhs[0])
	switch {
	case halves(m, func(x ast.Expr) bool { return isSum(stripConv(x)) }):
		midOK = true
	default:
		// lo + (hi-lo)/2
		if b, isB := m.(*ast.BinaryExpr); isB && b.Op == token.ADD && isLo(b.X) {
			midOK = halves(b.Y, func(x ast.Expr) bool {
				d, ok := unparen(x).(*ast.BinaryExpr)
				return ok && d.Op == token.SUB && isHi(d.X) && isLo(d.Y)
			})
		}
	}
	if !midOK {
		return
	}
	ifs, isIf := loop.Body.List[1].(*ast.IfStmt)
	if !isIf || ifs.Init != nil || ifs.Else == nil || len(ifs.Body.List) != 1 {
		return
	}
	els, isBlk := ifs.Else.(*ast.BlockStmt)
	if !isBlk || len(els.List) != 1 {
		return
	}
	// which arm moves right (lo = mid + 1) and which moves left (hi = mid)
	kind := func(st ast.Stmt) string {
		as, ok := st.(*ast.AssignStmt)
		if !ok || as.Tok != token.ASSIGN || len(as.Lhs) != 1 || len(as.Rhs) != 1 {
			return ""
		}
		if isLo(as.Lhs[0]) {
			if b, isB := unparen(as.Rhs[0]).(*ast.BinaryExpr); isB && b.Op == token.ADD {
				v, isC := constInt(info, b.Y)
				if sameVar(info, b.X, mid) && isC && v == 1 {
					return "right"
				}
			}
		}
		if isHi(as.Lhs[0]) && sameVar(info, as.Rhs[0], mid) {
			return "left"
		}
		return ""
	}
	a, b := kind(ifs.Body.List[0]), kind(els.List[0])
	switch {
	case a == "right" && b == "left":
		return lo, n, mid, ifs.Cond, -1, true
	case a == "left" && b == "right":
		return lo, n, mid, ifs.Cond, 1, true
	}
	return
}

// unguardedIndexResults lists, for every function of the package, the uses of a "position or −1" result (slices.Index,
// slices.IndexFunc, strings.Index…, bytes.Index…) as an index or slice bound that are not dominated by a test excluding −1
// (i >= 0, i != -1, i > -1, !(i < 0), i == -1 / i < 0 on the leaving arm). With −1 the expression panics.
func unguardedIndexResults(ix *PkgIndex) []string {
	info := ix.Pkg.TypesInfo
	isPosCall := func(e ast.Expr) bool {
		call, ok := unparen(e).(*ast.CallExpr)
		if !ok {
			return false
		}
		cf := callee(info, call)
		if cf == nil || cf.Pkg() == nil {
			return false
		}
		switch cf.Pkg().Path() {
		case "slices", "strings", "bytes":
			return strings.HasPrefix(cf.Name(), "Index") || strings.HasPrefix(cf.Name(), "LastIndex")
		}
		return false
	}
	var bad []string
	for _, f := range ix.All {
		if f.Body() == nil {
			continue
		}
		g := ix.FG(f)
		vars := map[types.Object]bool{}
		inspectNoLit(f.Body(), func(n ast.Node) bool {
			if as, ok := n.(*ast.AssignStmt); ok && len(as.Lhs) == len(as.Rhs) {
				for i, l := range as.Lhs {
					if isPosCall(as.Rhs[i]) {
						if o := objOf(info, l); o != nil {
							vars[o] = true
						}
					}
				}
			}
			return true
		})
		if len(vars) == 0 {
			continue
		}
		for v := range vars {
			// every assignment of v is a position call (otherwise it is not ours to judge)
			other := false
			inspectNoLit(f.Body(), func(n ast.Node) bool {
				if as, ok := n.(*ast.AssignStmt); ok && len(as.Lhs) == len(as.Rhs) {
					for i, l := range as.Lhs {
						if id, isID := unparen(l).(*ast.Ident); isID && info.ObjectOf(id) == v && !isPosCall(as.Rhs[i]) {
							other = true
						}
					}
				}
				return true
			})
			if other {
				continue
			}
			nonNeg := func(e *GEdge) bool {
				return edgeImplies(e, func(cnd ast.Expr, pol int) bool {
					l, op, r, ok := cmpNorm(cnd, pol)
					if !ok {
						return false
					}
					if objOf(info, l) == v {
						if k, isC := constInt(info, r); isC {
							return (op == token.GEQ && k >= 0) || (op == token.GTR && k >= -1) || (op == token.NEQ && k == -1) || (op == token.EQL && k >= 0)
						}
					}
					if objOf(info, r) == v {
						if k, isC := constInt(info, l); isC {
							return (op == token.LEQ && k >= 0) || (op == token.LSS && k >= -1) || (op == token.NEQ && k == -1) || (op == token.EQL && k >= 0)
						}
					}
					return false
				})
			}
			for _, x := range g.Nodes {
				if x.N == nil {
					continue
				}
				used := false
				inspectNoLit(x.N, func(n ast.Node) bool {
					mentions := func(e ast.Expr) bool {
						hit := false
						if e != nil {
							ast.Inspect(e, func(m ast.Node) bool {
								if id, ok := m.(*ast.Ident); ok && info.Uses[id] == v {
									hit = true
								}
								return !hit
							})
						}
						return hit
					}
					switch y := n.(type) {
					case *ast.IndexExpr:
						if _, isMap := info.TypeOf(y.X).Underlying().(*types.Map); !isMap && mentions(y.Index) {
							used = true
						}
					case *ast.SliceExpr:
						if mentions(y.Low) || mentions(y.High) || mentions(y.Max) {
							used = true
						}
					case *ast.CallExpr:
						// slices.Delete(s, i, j) / slices.Insert(s, i, …) index like s[i:j]
						if cf := callee(info, y); cf != nil && cf.Pkg() != nil && cf.Pkg().Path() == "slices" && (cf.Name() == "Delete" || cf.Name() == "Insert" || cf.Name() == "Replace") {
							for _, a := range y.Args[1:] {
								if mentions(a) {
									used = true
								}
							}
						}
					}
					return true
				})
				if !used {
					continue
				}
				if d, _ := g.DominatedByEdges(x, nonNeg); !d {
					bad = append(bad, v.Name()+" (from "+"an Index… call) used at "+ix.M.posStr(x.N.Pos())+" in "+f.Name+" without excluding -1")
				}
			}
		}
	}
	sort.Strings(bad)
	return bad
}
