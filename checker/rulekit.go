package main

import (
	"go/ast"
	"go/token"
	"go/types"
)

// Site is an AST node inside a function.
type Site struct {
	F *FuncInfo
	N ast.Node
}

func (ix *PkgIndex) at(s Site) obSite { return at(ix.M, s.N.Pos()) }

// FindCalls returns every call in the package (all functions and literals) accepted by pred.
func (ix *PkgIndex) FindCalls(pred func(f *FuncInfo, call *ast.CallExpr) bool) []Site {
	var out []Site
	for _, f := range ix.All {
		inspectNoLit(f.Body(), func(n ast.Node) bool {
			if call, ok := n.(*ast.CallExpr); ok && pred(f, call) {
				out = append(out, Site{f, call})
			}
			return true
		})
	}
	return out
}

// FindNodes returns every AST node in the package accepted by pred.
func (ix *PkgIndex) FindNodes(pred func(f *FuncInfo, n ast.Node) bool) []Site {
	var out []Site
	for _, f := range ix.All {
		inspectNoLit(f.Body(), func(n ast.Node) bool {
			if pred(f, n) {
				out = append(out, Site{f, n})
			}
			return true
		})
	}
	return out
}

// nodesIn returns the AST nodes inside function f (own body, literals excluded) accepted by pred.
func nodesIn(f *FuncInfo, pred func(n ast.Node) bool) []ast.Node {
	var out []ast.Node
	inspectNoLit(f.Body(), func(n ast.Node) bool {
		if pred(n) {
			out = append(out, n)
		}
		return true
	})
	return out
}

// nodesDeep is nodesIn but descends into literals too.
func nodesDeep(root ast.Node, pred func(n ast.Node) bool) []ast.Node {
	var out []ast.Node
	ast.Inspect(root, func(n ast.Node) bool {
		if n != nil && pred(n) {
			out = append(out, n)
		}
		return true
	})
	return out
}

// vertexSet maps AST nodes to their vertices.
func (g *FG) vertexSet(ns []ast.Node) map[*GNode]bool {
	out := map[*GNode]bool{}
	for _, n := range ns {
		if x := g.NodeOf(n); x != nil {
			out[x] = true
		}
	}
	return out
}

// DominatedByNodes: every path from entry to b passes a vertex of set (b itself excluded).
func (g *FG) DominatedByNodes(b *GNode, set map[*GNode]bool) (bool, string) {
	if set[b] {
		return true, ""
	}
	seen, parent := g.ReachFromEntry(func(x *GNode) bool { return set[x] }, nil)
	if seen[b] && !set[g.Entry] {
		return false, g.pathLines(parent, b)
	}
	return true, ""
}

// ReachFromEdge: vertices reachable after crossing edge e (e.To included unless blocked).
func (g *FG) ReachFromEdge(e *GEdge, blockNode func(*GNode) bool) (map[*GNode]bool, map[*GNode]*GNode) {
	if blockNode != nil && blockNode(e.To) {
		return map[*GNode]bool{}, map[*GNode]*GNode{}
	}
	seen, parent := g.Reach([]*GNode{e.To}, blockNode, nil)
	seen[e.To] = true
	return seen, parent
}

// InCycle reports whether vertex x can reach itself.
func (g *FG) InCycle(x *GNode) bool {
	seen, _ := g.Reach([]*GNode{x}, nil, nil)
	return seen[x]
}

// DominatedUp decides whether site n of f is guarded by an edge accepted by
// gen(f') at some level of every static call chain leading to it: locally, or
// (for unexported declarations whose value is never taken) at every call site,
// recursively; literals that run in place continue at their creation site.
func (ix *PkgIndex) DominatedUp(f *FuncInfo, n ast.Node, gen func(fi *FuncInfo) func(*GEdge) bool, depth int) (bool, string) {
	g := ix.FG(f)
	x := g.NodeOf(n)
	if x == nil {
		return false, "site not found in flow graph of " + f.Name
	}
	ok, why := g.DominatedByEdges(x, gen(f))
	if ok {
		return true, ""
	}
	where := f.Name + " (" + ix.M.posStr(n.Pos()) + ", unguarded " + why + ")"
	if depth > 6 {
		return false, "not guarded in " + where + ", call chain too deep"
	}
	if f.Lit != nil {
		switch ix.Use[f.Lit] {
		case LitCalled, LitOnceDo, LitGo, LitDefer:
			// the literal's body runs only if its creation site is reached
			return ix.DominatedUp(ix.Parent[f.Lit], f.Lit, gen, depth+1)
		}
		return false, "not guarded in " + where + ": literal stored/passed on"
	}
	if f.Obj == nil || ast.IsExported(f.Obj.Name()) {
		return false, "not guarded in " + where + ": exported entry point"
	}
	if esc := ix.Escapes[f.Obj.Origin()]; len(esc) > 0 {
		return false, "not guarded in " + where + ": function value taken at " + ix.M.posStr(esc[0])
	}
	sites := ix.Calls[f.Obj.Origin()]
	if len(sites) == 0 {
		return false, "not guarded in " + where + ": no static call sites"
	}
	for _, cs := range sites {
		if ok, why := ix.DominatedUp(cs.In, cs.Call, gen, depth+1); !ok {
			return false, why + " ← via " + f.Name
		}
	}
	return true, ""
}

// isRecvFrom: is e a receive expression `<-X` where X satisfies isX?
func isRecvFrom(e ast.Node, isX func(ast.Expr) bool) bool {
	u, ok := e.(*ast.UnaryExpr)
	return ok && u.Op == token.ARROW && isX(u.X)
}

// atomicBoolCall matches x.<method>() where x selects field fld of type atomic.Bool (or similar).
func fieldMethodCall(info *types.Info, n ast.Node, fld *types.Var, method string) *ast.CallExpr {
	call, ok := n.(*ast.CallExpr)
	if !ok {
		return nil
	}
	sel, ok := unparen(call.Fun).(*ast.SelectorExpr)
	if !ok || sel.Sel.Name != method {
		return nil
	}
	if !isField(info, sel.X, fld) {
		return nil
	}
	return call
}

// isEmptySliceExpr: x[:0], nil, make(T, 0[, n]), T{} — an emptied slice.
func isEmptySliceExpr(info *types.Info, e ast.Expr) bool {
	switch x := unparen(e).(type) {
	case *ast.SliceExpr:
		if x.High == nil {
			return false
		}
		if x.Low != nil {
			if lo, ok := constInt(info, x.Low); !ok || lo != 0 {
				return false
			}
		}
		v, ok := constInt(info, x.High)
		return ok && v == 0
	case *ast.Ident:
		return isNilIdent(info, x)
	case *ast.CallExpr:
		if builtinName(info, x) == "make" && len(x.Args) >= 2 {
			v, ok := constInt(info, x.Args[1])
			return ok && v == 0
		}
	case *ast.CompositeLit:
		return len(x.Elts) == 0
	}
	return false
}

// assignsTo returns the RHS assigned to an LHS accepted by isLHS in statement n (nil when n is not such an assignment).
func assignRHS(n ast.Node, isLHS func(ast.Expr) bool) ast.Expr {
	as, ok := n.(*ast.AssignStmt)
	if !ok {
		return nil
	}
	for i, l := range as.Lhs {
		if isLHS(l) {
			if len(as.Lhs) == len(as.Rhs) {
				return as.Rhs[i]
			}
			if len(as.Rhs) == 1 {
				return as.Rhs[0]
			}
		}
	}
	return nil
}

// isAppendTo: e is append(X, ...) with X accepted by isX.
func isAppendTo(info *types.Info, e ast.Expr, isX func(ast.Expr) bool) bool {
	call, ok := unparen(e).(*ast.CallExpr)
	if !ok || builtinName(info, call) != "append" || len(call.Args) == 0 {
		return false
	}
	return isX(call.Args[0])
}

// isLenOf: e is len(X) with X accepted.
func isLenOf(info *types.Info, e ast.Expr, isX func(ast.Expr) bool) bool {
	call, ok := unparen(e).(*ast.CallExpr)
	if !ok || builtinName(info, call) != "len" || len(call.Args) != 1 {
		return false
	}
	return isX(call.Args[0])
}

// sameVar: e is an identifier denoting v.
func sameVar(info *types.Info, e ast.Expr, v types.Object) bool {
	o := objOf(info, e)
	return o != nil && o == v
}

// closeOf: n is close(X) with X accepted.
func isCloseOf(info *types.Info, n ast.Node, isX func(ast.Expr) bool) bool {
	call, ok := n.(*ast.CallExpr)
	if !ok || builtinName(info, call) != "close" || len(call.Args) != 1 {
		return false
	}
	return isX(call.Args[0])
}

// enclosingLoop: is node n (in f) inside a for/range statement of f's own body?
func inLoop(f *FuncInfo, n ast.Node) bool {
	found := false
	var stack []ast.Node
	ast.Inspect(f.Body(), func(x ast.Node) bool {
		if x == nil {
			stack = stack[:len(stack)-1]
			return false
		}
		if x == n {
			for _, s := range stack {
				switch s.(type) {
				case *ast.ForStmt, *ast.RangeStmt:
					found = true
				}
			}
			return false
		}
		if _, ok := x.(*ast.FuncLit); ok {
			return false
		}
		stack = append(stack, x)
		return true
	})
	return found
}

// indexPairing checks, in fn, that every assignment M[k] = R into an int-valued index map directly follows
// `U = append(U, x)` in the same block and that R is len(U) − 1 (the position x was appended at).
// Returns the number of pairs and a description of the first violation ("" when fine).
func indexPairing(info *types.Info, fn *FuncInfo) (int, string, token.Pos) {
	n := 0
	bad := ""
	var badPos token.Pos
	ast.Inspect(fn.Body(), func(nd ast.Node) bool {
		blk, ok := nd.(*ast.BlockStmt)
		if !ok {
			return true
		}
		for i, st := range blk.List {
			as, ok := st.(*ast.AssignStmt)
			if !ok || len(as.Lhs) != 1 || len(as.Rhs) != 1 {
				continue
			}
			ie, ok := unparen(as.Lhs[0]).(*ast.IndexExpr)
			if !ok {
				continue
			}
			mt, ok := info.Types[ie.X].Type.Underlying().(*types.Map)
			if !ok {
				continue
			}
			if b, ok := mt.Elem().Underlying().(*types.Basic); !ok || b.Kind() != types.Int {
				continue
			}
			n++
			// previous statement: U = append(U, x)
			if i == 0 {
				bad, badPos = "index stored without a preceding append in the same block", as.Pos()
				continue
			}
			prev, ok := blk.List[i-1].(*ast.AssignStmt)
			if !ok || len(prev.Lhs) != 1 || len(prev.Rhs) != 1 {
				bad, badPos = "index stored without a directly preceding append", as.Pos()
				continue
			}
			call, ok := unparen(prev.Rhs[0]).(*ast.CallExpr)
			if !ok || builtinName(info, call) != "append" || len(call.Args) != 2 || exprStr(call.Args[0]) != exprStr(prev.Lhs[0]) {
				bad, badPos = "index stored without a directly preceding append", as.Pos()
				continue
			}
			u := exprStr(prev.Lhs[0])
			be, ok := unparen(as.Rhs[0]).(*ast.BinaryExpr)
			one, isC := int64(0), false
			if ok {
				one, isC = constInt(info, be.Y)
			}
			lenOK := false
			if ok && be.Op == token.SUB && isC && one == 1 {
				if lc, ok := unparen(be.X).(*ast.CallExpr); ok && builtinName(info, lc) == "len" && exprStr(lc.Args[0]) == u {
					lenOK = true
				}
			}
			if !lenOK {
				bad, badPos = "the index recorded for a newly appended element is "+exprStr(as.Rhs[0])+", not len("+u+") − 1 (its position)", as.Pos()
			}
		}
		return true
	})
	return n, bad, badPos
}
