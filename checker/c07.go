package main

import (
	"go/ast"
	"go/constant"
	"go/token"
	"go/types"
	"sort"
)

func init() {
	register(&PropDoc{
		ID:      "C07",
		Modules: []string{"sdk/metric"},
		NotDecided: "getBin (floating point), scaleChange, expoBuckets.record and downscale index arithmetic, 'at most MaxSize buckets', exact sum/min/max as numbers — " +
			"all need arithmetic reasoning static analysis here does not have.",
		Fn: c07,
	})
}

func c07(c *Ctx) {
	ax := c.Index("sdk/metric", aggPkg)
	mx := c.Index("sdk/metric", sdkMetric)
	if ax == nil || mx == nil {
		return
	}
	info := ax.Pkg.TypesInfo
	minfo := mx.Pkg.TypesInfo

	c.Rule("R1", "E4 + E2", "explicit buckets: index from a lower-bound search over bounds, len(bounds)+1 bins, sum skipped only under noSum, min/max comparisons point the right way, a new series starts with min = max = value", 6)
	if fn := c.Fn(ax, "R1", "(*histValues).measure"); fn != nil {
		g := ax.FG(fn)
		fBounds := lookupField(ax.Pkg, "histValues", "bounds")
		fNoSum := lookupField(ax.Pkg, "histValues", "noSum")
		val := fn.Obj.Type().(*types.Signature).Params().At(1)
		bin, sum, nb := ax.Func("(*buckets).bin"), ax.Func("(*buckets).sum"), ax.Func("newBuckets")
		// idx := <lower-bound search of value in s.bounds> (library call, sort.Search with the defining predicate, or a helper
		// of the package whose single return is one of those)
		var idx types.Object
		inspectNoLit(fn.Body(), func(n ast.Node) bool {
			as, ok := n.(*ast.AssignStmt)
			if !ok || len(as.Rhs) != 1 {
				return true
			}
			if lowerBoundSearch(ax, fn, as.Rhs[0], fBounds, func(e ast.Expr) bool { return sameVar(info, e, val) }, 1) {
				idx = objOf(info, as.Lhs[0])
			}
			return true
		})
		// the index has no other definition (a conditional fast path beside the search changes the bucket of boundary values)
		if idx != nil {
			ndef := 0
			inspectNoLit(fn.Body(), func(n ast.Node) bool {
				switch s := n.(type) {
				case *ast.AssignStmt:
					for _, l := range s.Lhs {
						if sameVar(info, l, idx) {
							ndef++
						}
					}
				case *ast.IncDecStmt:
					if sameVar(info, s.X, idx) {
						ndef++
					}
				}
				return true
			})
			if ndef != 1 {
				idx = nil
			}
		}
		c.Check(idx != nil, "R1", "aggregate|(*histValues).measure|idx ← lower-bound search of value in bounds", at(ax.M, fn.Pos()), "first bound ≥ value (upper-inclusive buckets), the only definition of the index",
			"the bucket index is not (only) the lower-bound search result over bounds: values land in the wrong bucket (e.g. boundary values counted in the next bucket)")
		binCalls := g.Match(callToDecl(info, bin))
		okBin := len(binCalls) == 1 && idx != nil
		if okBin {
			inspectNoLit(binCalls[0].N, func(n ast.Node) bool {
				if call, ok := n.(*ast.CallExpr); ok && callToDecl(info, bin)(call) {
					okBin = len(call.Args) == 2 && sameVar(info, call.Args[0], idx) && sameVar(info, call.Args[1], val)
				}
				return true
			})
			s, _ := g.ReachFromEntry(func(x *GNode) bool { return x == binCalls[0] }, nil)
			okBin = okBin && !s[g.Exit]
		}
		c.Check(okBin, "R1", "aggregate|(*histValues).measure|b.bin(idx, value) on every path", at(ax.M, fn.Pos()), "every measurement is binned once with the searched index", "a measurement is not binned, or binned with another index")
		// newBuckets(attr, len(bounds)+1) — in measure or in the look-up-or-create helper it calls
		newFn, newPM := ax.workFunc(fn, func(n ast.Node) bool { call, ok := n.(*ast.CallExpr); return ok && callToDecl(info, nb)(call) })
		okN := false
		inspectNoLit(newFn.Body(), func(n ast.Node) bool {
			if call, ok := n.(*ast.CallExpr); ok && callToDecl(info, nb)(call) && len(call.Args) == 2 {
				if be, ok := unparen(call.Args[1]).(*ast.BinaryExpr); ok && be.Op == token.ADD {
					one, isC := constInt(info, be.Y)
					okN = isC && one == 1 && isLenOf(info, be.X, func(e ast.Expr) bool { return isField(info, e, fBounds) })
				}
			}
			return true
		})
		c.Check(okN, "R1", "aggregate|(*histValues).measure|new series gets len(bounds)+1 bins", at(ax.M, fn.Pos()), "N bounds ⇒ N+1 buckets", "bucket count is not len(bounds)+1: the overflow bucket is missing (index out of range) or extra")
		// sum skipped only under noSum (negative form)
		sumCalls := toSet(g.Match(callToDecl(info, sum)))
		s, _ := g.ReachFromEntry(func(x *GNode) bool { return sumCalls[x] }, func(e *GEdge) bool {
			return edgeImplies(e, func(cnd ast.Expr, pol int) bool { return pol > 0 && isField(info, cnd, fNoSum) })
		})
		c.Check(len(sumCalls) == 1 && !s[g.Exit], "R1", "aggregate|(*histValues).measure|sum(value) on every path unless noSum", at(ax.M, fn.Pos()), "sum accumulates every measurement", "a measurement can be binned without being added to the sum")
		// min,max = value,value for a new series
		okMM := false
		fMin, fMax := lookupField(ax.Pkg, "buckets", "min"), lookupField(ax.Pkg, "buckets", "max")
		valNew := newPM(val) // the measured value as the creating function knows it
		for _, x := range ax.FG(newFn).Nodes {
			as, ok := x.N.(*ast.AssignStmt)
			if !ok {
				continue
			}
			mn, mxx := false, false
			for i, l := range as.Lhs {
				if len(as.Lhs) == len(as.Rhs) && valNew != nil && sameVar(info, as.Rhs[i], valNew) {
					if isField(info, l, fMin) {
						mn = true
					}
					if isField(info, l, fMax) {
						mxx = true
					}
				}
			}
			if mn && mxx {
				// only on the new-series edge (!ok)
				okMM = true
			}
		}
		c.Check(okMM, "R1", "aggregate|(*histValues).measure|new series: min, max = value, value", at(ax.M, fn.Pos()), "extrema start at the first value", "a new series starts with zero-valued extrema: min of positive data reports 0")
	}
	// the lower-bound search needs sorted bounds: the constructor sorts its own copy (validation of "strictly increasing" happens
	// only on some of the ways a Stream reaches the aggregator — a hand-written View function is not validated)
	if fn := c.Fn(ax, "R1", "newHistValues"); fn != nil {
		fBounds := lookupField(ax.Pkg, "histValues", "bounds")
		g := ax.FG(fn)
		// the value stored as bounds, and whether it passed a sort between its definition and the store
		var stored types.Object
		var storedExpr ast.Expr
		inspectNoLit(fn.Body(), func(n ast.Node) bool {
			switch x := n.(type) {
			case *ast.KeyValueExpr:
				if id, ok := x.Key.(*ast.Ident); ok && fBounds != nil && info.Uses[id] == types.Object(fBounds) {
					storedExpr = x.Value
					stored = objOf(info, x.Value)
				}
			case *ast.AssignStmt:
				if r := assignRHS(x, func(e ast.Expr) bool { return isField(info, e, fBounds) }); r != nil {
					storedExpr = r
					stored = objOf(info, r)
				}
			}
			return true
		})
		sorted := false
		if stored != nil {
			inspectNoLit(fn.Body(), func(n ast.Node) bool {
				if call, ok := n.(*ast.CallExpr); ok && len(call.Args) >= 1 && sameVar(info, call.Args[0], stored) {
					if isCallTo(info, call, "slices.Sort") || isCallTo(info, call, "sort.Float64s") || isCallTo(info, call, "slices.SortFunc") || isCallTo(info, call, "sort.Slice") {
						// on every path from entry to the exit
						nd := g.NodeOf(call)
						if nd != nil {
							seen, _ := g.ReachFromEntry(func(y *GNode) bool { return y == nd }, nil)
							if !seen[g.Exit] {
								sorted = true
							}
						}
					}
				}
				return true
			})
		}
		what := "nothing"
		if storedExpr != nil {
			what = exprStr(storedExpr)
		}
		c.Check(sorted, "R1", "aggregate|newHistValues|the bounds the search runs over are sorted by the constructor", at(ax.M, fn.Pos()), "own copy, sorted on every path",
			"histValues.bounds is "+what+" without a sort: boundaries given in another order (a View function's Stream is not validated) make the lower-bound search count values in the wrong buckets")
	}
	if fn := c.Fn(ax, "R1", "(*buckets).bin"); fn != nil {
		g := ax.FG(fn)
		fMin, fMax := lookupField(ax.Pkg, "buckets", "min"), lookupField(ax.Pkg, "buckets", "max")
		val := fn.Obj.Type().(*types.Signature).Params().At(1)
		good := true
		n := 0
		for _, sp := range []struct {
			f  *types.Var
			op token.Token
		}{{fMin, token.LSS}, {fMax, token.GTR}} {
			stores := g.Match(func(nd ast.Node) bool {
				r := assignRHS(nd, func(e ast.Expr) bool { return isField(info, e, sp.f) })
				return r != nil && sameVar(info, r, val)
			})
			for _, x := range stores {
				n++
				d, _ := g.DominatedByEdges(x, func(e *GEdge) bool {
					return edgeImplies(e, func(cnd ast.Expr, pol int) bool {
						l, op, r, ok := cmpNorm(cnd, pol)
						if !ok {
							return false
						}
						return (sameVar(info, l, val) && isField(info, r, sp.f) && op == sp.op) || (isField(info, l, sp.f) && sameVar(info, r, val) && op == flipOp(sp.op))
					})
				})
				if !d {
					good = false
				}
			}
		}
		c.Check(good && n == 2, "R1", "aggregate|(*buckets).bin|min updated under value < min, max under value > max", at(ax.M, fn.Pos()), "comparisons point the right way", "min/max update conditions are wrong (extrema move the wrong way)")
	}

	c.Rule("R2", "E3 pairing", "exponential record: on every path count++ is matched by exactly one of zeroCount++ / bucket.record(bin)", 1)
	rec := c.Fn(ax, "R2", "(*expoHistogramDataPoint).record")
	if rec != nil {
		g := ax.FG(rec)
		fCount := lookupField(ax.Pkg, "expoHistogramDataPoint", "count")
		fZero := lookupField(ax.Pkg, "expoHistogramDataPoint", "zeroCount")
		brec := ax.Func("(*expoBuckets).record")
		isInc := func(f *types.Var) func(ast.Node) bool {
			return func(n ast.Node) bool {
				s, ok := n.(*ast.IncDecStmt)
				return ok && s.Tok == token.INC && isField(info, s.X, f)
			}
		}
		// count++ may live in a helper called from record: treat calls to same-type helpers that increment count as count events
		countEv := toSet(g.Match(func(n ast.Node) bool {
			if isInc(fCount)(n) {
				return true
			}
			if call, ok := n.(*ast.CallExpr); ok {
				if cf := callee(info, call); cf != nil {
					if h := ax.ByObj(cf); h != nil && h != rec && len(nodesIn(h, isInc(fCount))) > 0 {
						return true
					}
				}
			}
			return false
		}))
		binEv := toSet(g.Match(func(n ast.Node) bool { return isInc(fZero)(n) || callToDecl(info, brec)(n) }))
		key := "aggregate|(*expoHistogramDataPoint).record|count++ ⇔ exactly one of zeroCount++ / bucket.record"
		site := at(ax.M, rec.Pos())
		// every path: #count events == #bin events == 1, or both 0
		bad := ""
		// (a) a path with a count event and no bin event
		for x := range countEv {
			s, p := g.Reach([]*GNode{x}, func(y *GNode) bool { return binEv[y] }, nil)
			if s[g.Exit] {
				// unless the path entered x after a bin event already (bin before count): check from entry
				pre, _ := g.ReachFromEntry(func(y *GNode) bool { return binEv[y] }, nil)
				if pre[x] {
					bad = "a path increments count and returns without recording the value in a bucket or the zero count: " + g.pathLines(p, g.Exit)
					site = at(ax.M, x.N.Pos())
				}
			}
			if s[x] && g.InCycle(x) {
				bad = "count++ inside a loop"
			}
		}
		// (b) a path with a bin event and no count event
		for x := range binEv {
			pre, _ := g.ReachFromEntry(func(y *GNode) bool { return countEv[y] }, nil)
			if pre[x] {
				s, _ := g.Reach([]*GNode{x}, func(y *GNode) bool { return countEv[y] }, nil)
				if s[g.Exit] {
					bad = "a path records into a bucket without incrementing count"
				}
			}
			// two bin events on one path
			s2, _ := g.Reach([]*GNode{x}, nil, nil)
			for y := range s2 {
				if binEv[y] {
					bad = "two bucket events on one path"
				}
			}
		}
		// two count events on one path
		for x := range countEv {
			s2, _ := g.Reach([]*GNode{x}, nil, nil)
			for y := range s2 {
				if countEv[y] {
					bad = "count incremented twice on one path"
				}
			}
		}
		if len(countEv) == 0 || len(binEv) < 2 {
			bad = "count/bucket events not found"
		}
		if bad == "" {
			c.OK("R2", key, site, "count and the bucket totals move together on every path")
		} else {
			c.Violation("R2", key, site, bad)
		}
	}

	c.Rule("R3", "E5 who-writes + E3 dominance", "scale is written only by the constructor and by scale -= δ under δ > 0 and past the expoMinScale test; every decrement is followed by downscale(δ) on both bucket sets", 1)
	if rec != nil {
		fScale := lookupField(ax.Pkg, "expoHistogramDataPoint", "scale")
		fPos, fNeg := lookupField(ax.Pkg, "expoHistogramDataPoint", "posBuckets"), lookupField(ax.Pkg, "expoHistogramDataPoint", "negBuckets")
		down := ax.Func("(*expoBuckets).downscale")
		cnt := 0
		for _, acc := range ax.fieldAccesses(map[*types.Var]bool{fScale.Origin(): true}) {
			if !acc.Write {
				continue
			}
			cnt++
			key := "aggregate|" + acc.F.Name + "|write of scale #" + itoa(cnt)
			if ax.Outer(acc.F) != rec {
				c.Violation("R3", key, at(ax.M, acc.Sel.Pos()), "scale is written outside record(): points could report a scale their buckets were not built with")
				continue
			}
			g := ax.FG(rec)
			// the statement: p.scale -= δ
			var stmt *ast.AssignStmt
			inspectNoLit(rec.Body(), func(n ast.Node) bool {
				if as, ok := n.(*ast.AssignStmt); ok && len(as.Lhs) == 1 && unparen(as.Lhs[0]) == ast.Expr(acc.Sel) {
					stmt = as
				}
				return true
			})
			if stmt == nil || stmt.Tok != token.SUB_ASSIGN {
				c.Violation("R3", key, at(ax.M, acc.Sel.Pos()), "scale is written other than by `scale -= δ` (scale must only ever decrease)")
				continue
			}
			delta := objOf(info, stmt.Rhs[0])
			x := g.NodeOf(stmt)
			dPos, _ := g.DominatedByEdges(x, func(e *GEdge) bool {
				return edgeImplies(e, func(cnd ast.Expr, pol int) bool {
					l, op, r, ok := cmpNorm(cnd, pol)
					v, isC := constInt(info, r)
					return ok && delta != nil && sameVar(info, l, delta) && isC && ((op == token.GTR && v == 0) || (op == token.GEQ && v == 1))
				})
			})
			dMin, _ := g.DominatedByEdges(x, func(e *GEdge) bool {
				return edgeImplies(e, func(cnd ast.Expr, pol int) bool {
					l, op, r, ok := cmpNorm(cnd, pol)
					if !ok {
						return false
					}
					k := constObj(info, r)
					be, isBin := l.(*ast.BinaryExpr)
					return k != nil && k.Name() == "expoMinScale" && op == token.GEQ && isBin && be.Op == token.SUB && isField(info, be.X, fScale) && delta != nil && sameVar(info, be.Y, delta)
				})
			})
			// followed by downscale(δ) on both
			both := true
			for _, f := range []*types.Var{fPos, fNeg} {
				ds := toSet(g.Match(func(n ast.Node) bool {
					call, ok := n.(*ast.CallExpr)
					if !ok || !callToDecl(info, down)(call) || len(call.Args) != 1 || !sameVar(info, call.Args[0], delta) {
						return false
					}
					recv, _ := methodCall(info, call)
					return isField(info, recv, f)
				}))
				// the decrement and the rescale go together: the rescale follows the decrement on every path, or it precedes it on
				// every path and is itself always followed by the decrement
				after, _ := g.MustPassBeforeExit(x, ds)
				before, _ := g.DominatedByNodes(x, ds)
				if before {
					for d := range ds {
						if ok, _ := g.MustPassBeforeExit(d, map[*GNode]bool{x: true}); !ok {
							before = false
						}
					}
				}
				if len(ds) == 0 || !(after || before) {
					both = false
				}
			}
			c.Check(dPos && dMin && both, "R3", key, at(ax.M, acc.Sel.Pos()), "δ > 0, scale − δ ≥ expoMinScale, both bucket sets downscaled by δ",
				"scale decrement not properly guarded/paired (δ>0: "+boolStr(dPos)+", min-scale test: "+boolStr(dMin)+", both bucket sets rescaled: "+boolStr(both)+"): buckets and reported scale disagree, or scale leaves [-10, 20]")
		}
		if cnt == 0 {
			c.Violation("R3", "aggregate|record|scale writes", at(ax.M, rec.Pos()), "no write of scale found")
		}
	}

	c.Rule("R4", "E2 two-sided comparison", "configuration validation bounds MaxScale on both sides ([-10, 20]) and MaxSize from below", 3)
	if fn := c.Fn(mx, "R4", "AggregationBase2ExponentialHistogram.err"); fn != nil {
		g := mx.FG(fn)
		fMS := lookupField(mx.Pkg, "AggregationBase2ExponentialHistogram", "MaxScale")
		fSz := lookupField(mx.Pkg, "AggregationBase2ExponentialHistogram", "MaxSize")
		type row struct {
			name         string
			scale, size  int64
			wantAccepted bool
		}
		for _, r := range []row{
			{"MaxScale=21 rejected", 21, 160, false}, {"MaxScale=20 accepted", 20, 160, true}, {"MaxScale=-10 accepted", -10, 160, true},
			{"MaxScale=-11 rejected", -11, 160, false}, {"MaxSize=0 rejected", 0, 0, false}, {"MaxSize=1 accepted", 0, 1, true},
		} {
			env := func(e ast.Expr) (constant.Value, bool) {
				if isField(minfo, e, fMS) {
					return constant.MakeInt64(r.scale), true
				}
				if isField(minfo, e, fSz) {
					return constant.MakeInt64(r.size), true
				}
				return nil, false
			}
			seen := g.ReachUnder(env)
			acc, rej := false, false
			for x := range seen {
				if rs, ok := x.N.(*ast.ReturnStmt); ok && len(rs.Results) == 1 {
					if isNilIdent(minfo, rs.Results[0]) {
						acc = true
					} else {
						rej = true
					}
				}
			}
			c.Check(acc == r.wantAccepted && rej == !r.wantAccepted, "R4", "sdk/metric|AggregationBase2ExponentialHistogram.err|"+r.name, at(mx.M, fn.Pos()), "as documented",
				"validation accepts="+boolStr(acc)+" for "+r.name+" (documented range of MaxScale is [-10, 20], MaxSize must be positive): an out-of-range configuration reaches the aggregator")
		}
		// the same constants as the aggregator
		kMax, _ := mx.Pkg.Types.Scope().Lookup("expoMaxScale").(*types.Const)
		kMin, _ := mx.Pkg.Types.Scope().Lookup("expoMinScale").(*types.Const)
		aMax, _ := ax.Pkg.Types.Scope().Lookup("expoMaxScale").(*types.Const)
		aMin, _ := ax.Pkg.Types.Scope().Lookup("expoMinScale").(*types.Const)
		same := kMax != nil && kMin != nil && aMax != nil && aMin != nil && constant.Compare(kMax.Val(), token.EQL, aMax.Val()) && constant.Compare(kMin.Val(), token.EQL, aMin.Val()) &&
			constant.Compare(kMax.Val(), token.EQL, constant.MakeInt64(20)) && constant.Compare(kMin.Val(), token.EQL, constant.MakeInt64(-10))
		c.Check(same, "R4", "sdk/metric+aggregate|expoMaxScale/expoMinScale|= 20 / −10 in both packages", at(mx.M, fn.Pos()), "validator and aggregator agree with the specification", "scale limits differ between validator and aggregator or from the specified [-10, 20]")
	}

	c.Rule("R5", "E3 routing", "sign routing (v < 0 ⇒ negative buckets), zero ⇒ zeroCount only, NaN/Inf filter dominates record", 2)
	if rec != nil {
		g := ax.FG(rec)
		fPos, fNeg := lookupField(ax.Pkg, "expoHistogramDataPoint", "posBuckets"), lookupField(ax.Pkg, "expoHistogramDataPoint", "negBuckets")
		v := rec.Obj.Type().(*types.Signature).Params().At(0)
		// bucket variable: initialised &posBuckets, reassigned &negBuckets only under v < 0
		var bvar types.Object
		initPos := false
		for _, x := range g.Nodes {
			as, ok := x.N.(*ast.AssignStmt)
			if !ok || len(as.Lhs) != 1 || len(as.Rhs) != 1 {
				continue
			}
			u, ok := unparen(as.Rhs[0]).(*ast.UnaryExpr)
			if !ok || u.Op != token.AND {
				continue
			}
			if isField(info, u.X, fPos) && as.Tok == token.DEFINE {
				bvar = objOf(info, as.Lhs[0])
				initPos = true
			}
		}
		negOK := false
		if bvar != nil {
			for _, x := range g.Nodes {
				as, ok := x.N.(*ast.AssignStmt)
				if !ok || len(as.Lhs) != 1 || len(as.Rhs) != 1 || !sameVar(info, as.Lhs[0], bvar) || as.Tok != token.ASSIGN {
					continue
				}
				u, ok := unparen(as.Rhs[0]).(*ast.UnaryExpr)
				if ok && u.Op == token.AND && isField(info, u.X, fNeg) {
					negOK, _ = g.DominatedByEdges(x, func(e *GEdge) bool {
						return edgeImplies(e, func(cnd ast.Expr, pol int) bool {
							l, op, r, ok := cmpNorm(cnd, pol)
							z, isC := constFloat(info, r)
							return ok && sameVar(info, l, v) && op == token.LSS && isC && z == 0
						})
					})
					// and every path with v<0 takes it: negative form — from the v<0 true edge the assignment is passed before bucket.record
				}
			}
		}
		c.Check(initPos && negOK, "R5", "aggregate|(*expoHistogramDataPoint).record|bucket = positive by default, negative only under v < 0", at(ax.M, rec.Pos()), "sign routing as specified", "negative and positive measurements are routed to the wrong bucket set")
	}
	if fn := c.Fn(ax, "R5", "(*expoHistogram).measure"); fn != nil && rec != nil {
		g := ax.FG(fn)
		calls := g.Match(callToDecl(info, rec))
		good := len(calls) == 1
		if good {
			for _, fnm := range []string{"math.IsNaN", "math.IsInf"} {
				d, _ := g.DominatedByEdges(calls[0], func(e *GEdge) bool {
					return edgeImplies(e, func(cnd ast.Expr, pol int) bool {
						call, ok := cnd.(*ast.CallExpr)
						return ok && pol < 0 && isCallTo(info, call, fnm)
					})
				})
				if !d {
					good = false
				}
			}
		}
		c.Check(good, "R5", "aggregate|(*expoHistogram).measure|record dominated by !IsNaN and !IsInf", at(ax.M, fn.Pos()), "non-finite values never reach the bucket arithmetic", "NaN/Inf reach getBin (undefined bucket index, scale collapse)")
	}

	// R9 the binary exponent used by getBin is exact for subnormal values
	c.Rule("R9", "E4 provenance + contradiction", "getBin: the binary exponent of the value comes from a method that normalises subnormals (math.Frexp / Ilogb / Logb); where it is read out of the IEEE-754 exponent field (Float64bits >> 52) the zero field — every subnormal — is treated as a case of its own", 1)
	if fn := c.Fn(ax, "R9", "(*expoHistogramDataPoint).getBin"); fn != nil {
		// getBin and the package functions it calls
		seenF := map[*FuncInfo]bool{}
		var fs []*FuncInfo
		var visit func(f *FuncInfo)
		visit = func(f *FuncInfo) {
			if f == nil || seenF[f] || f.Body() == nil {
				return
			}
			seenF[f] = true
			fs = append(fs, f)
			inspectNoLit(f.Body(), func(n ast.Node) bool {
				if call, ok := n.(*ast.CallExpr); ok {
					if cf := callee(info, call); cf != nil {
						visit(ax.declByObj(cf))
					}
				}
				return true
			})
		}
		visit(fn)
		normalising, bad := false, ""
		var badPos token.Pos
		for _, f := range fs {
			g := ax.FG(f)
			fromBits := func(e ast.Expr) bool {
				hit := false
				ast.Inspect(e, func(m ast.Node) bool {
					switch x := m.(type) {
					case *ast.CallExpr:
						if isCallTo(info, x, "math.Float64bits") {
							hit = true
						}
					case *ast.Ident:
						if d := g.LocalDef(info.Uses[x]); d != nil {
							ast.Inspect(d, func(k ast.Node) bool {
								if c2, ok := k.(*ast.CallExpr); ok && isCallTo(info, c2, "math.Float64bits") {
									hit = true
								}
								return true
							})
						}
					}
					return true
				})
				return hit
			}
			isExtract := func(e ast.Expr) bool {
				be, ok := unparen(e).(*ast.BinaryExpr)
				if !ok || be.Op != token.SHR {
					return false
				}
				k, isC := constInt(info, be.Y)
				return isC && k == 52 && fromBits(be.X)
			}
			var extracts []ast.Expr
			holders := map[types.Object]bool{}
			inspectNoLit(f.Body(), func(n ast.Node) bool {
				switch x := n.(type) {
				case *ast.CallExpr:
					if isCallTo(info, x, "math.Frexp") || isCallTo(info, x, "math.Ilogb") || isCallTo(info, x, "math.Logb") {
						normalising = true
					}
				case *ast.BinaryExpr:
					if isExtract(x) {
						extracts = append(extracts, x)
					}
				}
				return true
			})
			if len(extracts) == 0 {
				continue
			}
			containsExtract := func(e ast.Expr) bool {
				hit := false
				ast.Inspect(e, func(m ast.Node) bool {
					if ex, ok := m.(ast.Expr); ok && isExtract(ex) {
						hit = true
					}
					if id, ok := m.(*ast.Ident); ok && holders[info.Uses[id]] {
						hit = true
					}
					return true
				})
				return hit
			}
			for changed := true; changed; {
				changed = false
				inspectNoLit(f.Body(), func(n ast.Node) bool {
					if as, ok := n.(*ast.AssignStmt); ok && len(as.Lhs) == len(as.Rhs) {
						for i, r := range as.Rhs {
							if o := objOf(info, as.Lhs[i]); o != nil && !holders[o] && containsExtract(r) {
								holders[o] = true
								changed = true
							}
						}
					}
					return true
				})
			}
			handled := false
			inspectNoLit(f.Body(), func(n ast.Node) bool {
				if be, ok := n.(*ast.BinaryExpr); ok {
					switch be.Op {
					case token.EQL, token.NEQ, token.LSS, token.LEQ, token.GTR, token.GEQ:
						_, cx := constInt(info, be.X)
						_, cy := constInt(info, be.Y)
						if (cy && containsExtract(be.X)) || (cx && containsExtract(be.Y)) {
							handled = true
						}
					}
				}
				if sw, ok := n.(*ast.SwitchStmt); ok && sw.Tag != nil && containsExtract(sw.Tag) {
					handled = true
				}
				return true
			})
			if !handled {
				bad = "in " + f.Name + " the exponent is read from the exponent field of the bits (" + exprStr(extracts[0]) + ") and the field is never compared with a constant: for every subnormal value the field is 0, so they all get the same exponent whatever their magnitude"
				badPos = extracts[0].Pos()
			}
		}
		if bad != "" {
			c.Violation("R9", "aggregate|(*expoHistogramDataPoint).getBin|binary exponent exact for subnormals", at(ax.M, badPos), "a subnormal measurement is placed in a bucket whose bounds do not contain it (scale ≤ 0): "+bad)
		} else if normalising {
			c.OK("R9", "aggregate|(*expoHistogramDataPoint).getBin|binary exponent exact for subnormals", at(ax.M, fn.Pos()), "exponent from a normalising library function; no unguarded read of the exponent field")
		} else {
			c.OK("R9", "aggregate|(*expoHistogramDataPoint).getBin|binary exponent exact for subnormals", at(ax.M, fn.Pos()), "no read of the IEEE-754 exponent field found (method of obtaining the exponent not recognised: not decided beyond that)")
		}
	}

	// R10 recycled output points are completely rewritten
	c.Rule("R10", "E8 fieldcover on every path", "collect methods: every field of a recycled output data point that the loop assigns at all is assigned on every path of the iteration (reset does not zero; a slot may have belonged to another instrument), so Sum, Min and Max are the point's own or unset", 4)
	if n := ruleRecycledPoints(c, ax, "R10"); n == 0 {
		c.Violation("R10", "aggregate|collect methods|recycled points", at(ax.M, ax.Pkg.Syntax[0].Pos()), "no collect loop over recycled data points found: the analysis no longer sees the loops it was built on")
	}

	c.Rule("R8", "E10 type width + E3 must-pass", "exponential buckets: the bin-window arithmetic of scaleChange is carried out in a 64-bit integer on every platform (bins span more than 2^31 at scale 20); a window grown inside spare capacity is zeroed before use (down-scaling leaves stale counts behind len)", 3)
	if fn := c.Fn(ax, "R8", "(*expoHistogramDataPoint).scaleChange"); fn != nil {
		sizes := ax.Pkg.TypesSizes
		bad := ""
		n := 0
		inspectNoLit(fn.Body(), func(nd ast.Node) bool {
			be, ok := nd.(*ast.BinaryExpr)
			if !ok || (be.Op != token.ADD && be.Op != token.SUB) {
				return true
			}
			tv, has := info.Types[be]
			if !has || tv.Value != nil {
				return true
			}
			b, isB := tv.Type.Underlying().(*types.Basic)
			if !isB || b.Info()&types.IsInteger == 0 {
				return true
			}
			n++
			if sizes != nil && sizes.Sizeof(tv.Type) < 8 {
				bad = exprStr(be) + " is computed in " + tv.Type.String() + " (" + itoa(int(sizes.Sizeof(tv.Type))*8) + " bits on this platform)"
			}
			return true
		})
		c.Check(bad == "" && n >= 2, "R8", "aggregate|(*expoHistogramDataPoint).scaleChange|window arithmetic in 64 bits", at(ax.M, fn.Pos()), itoa(n)+" additions/subtractions, all 64-bit",
			"the distance between two bins can exceed 2^31 (scale 20: a near-maximal and a subnormal value of one sign): "+bad+" wraps, scaleChange answers 0 and the bucket window is grown instead of down-scaled (panic / far more than MaxSize buckets)")
	}
	ruleExpoWindowZeroed(c, ax, "R8")

	c.Rule("R7", "E4 role agreement", "in the exponential collect methods every statement that fills PositiveBucket reads posBuckets only and every statement that fills NegativeBucket reads negBuckets only", 2)
	ruleSignRoles(c, ax, "R7")

	c.Rule("R6", "E4 ownership", "cumulative collection never hands out the aggregator's retained count slices: copies via slices.Clone / copy into a reset buffer", 4)
	for _, sp := range []struct{ fn, elemT string }{{"(*histogram).cumulative", "buckets"}, {"(*expoHistogram).cumulative", "expoBuckets"}, {"(*expoHistogram).delta", "expoBuckets"}} {
		fn := c.Fn(ax, "R6", sp.fn)
		fCounts := lookupField(ax.Pkg, sp.elemT, "counts")
		if fn == nil || fCounts == nil {
			continue
		}
		var alias []string
		// a collect implementation shared by both temporalities is judged under the temporality this method selects
		work, live := ax.delegateUnder(fn)
		inspectNoLit(work.Body(), func(n ast.Node) bool {
			as, ok := n.(*ast.AssignStmt)
			if !ok || len(as.Lhs) != len(as.Rhs) || !live(as) {
				return true
			}
			for i, r := range as.Rhs {
				if isField(info, r, fCounts) {
					alias = append(alias, exprStr(as.Lhs[i])+" = "+exprStr(r)+" at "+ax.M.posStr(as.Pos()))
				}
				if se, ok := unparen(r).(*ast.SliceExpr); ok && isField(info, se.X, fCounts) {
					alias = append(alias, exprStr(as.Lhs[i])+" = "+exprStr(r)+" at "+ax.M.posStr(as.Pos()))
				}
			}
			return true
		})
		c.Check(len(alias) == 0, "R6", "aggregate|"+sp.fn+"|no aliasing of retained counts", at(ax.M, fn.Pos()), "output owns its bucket counts",
			"the exported point shares its bucket counts with the live aggregator (later measurements change already-exported data): "+joinStr(alias))
	}
	for _, nm := range []string{"(*histogram).cumulative", "(*histogram).delta"} {
		if fn := c.Fn(ax, "R6", nm); fn != nil {
			fBounds := lookupField(ax.Pkg, "histValues", "bounds")
			okB := true
			n := 0
			work, live := ax.delegateUnder(fn)
			inspectNoLit(work.Body(), func(nd ast.Node) bool {
				as, ok := nd.(*ast.AssignStmt)
				if !ok || !live(as) {
					return true
				}
				for _, r := range as.Rhs {
					if isField(info, r, fBounds) {
						okB = false
					}
					if call, ok := unparen(r).(*ast.CallExpr); ok && isCallTo(info, call, "slices.Clone") && len(call.Args) == 1 && isField(info, call.Args[0], fBounds) {
						n++
					}
				}
				return true
			})
			c.Check(okB && n == 1, "R6", "aggregate|"+nm+"|Bounds ← slices.Clone(bounds)", at(ax.M, fn.Pos()), "exported bounds are a copy", "exported points share the aggregator's bounds slice")
		}
	}
}

func joinStr(ss []string) string {
	out := ""
	for i, s := range ss {
		if i > 0 {
			out += "; "
		}
		out += s
	}
	return out
}

// ruleSignRoles (C07.R7 / C08.R8): positive/negative bucket roles agree statement by statement in the exponential collect methods.
func ruleSignRoles(c *Ctx, ax *PkgIndex, rule string) {
	info := ax.Pkg.TypesInfo
	for _, nm := range []string{"(*expoHistogram).delta", "(*expoHistogram).cumulative"} {
		fn := c.Fn(ax, rule, nm)
		if fn == nil {
			continue
		}
		fPos, fNeg := lookupField(ax.Pkg, "expoHistogramDataPoint", "posBuckets"), lookupField(ax.Pkg, "expoHistogramDataPoint", "negBuckets")
		fn, _ = ax.delegateUnder(fn)
		var bad []string
		n := 0
		var visit func(st ast.Stmt)
		check := func(st ast.Stmt) {
			mPos, mNeg, rPos, rNeg := false, false, false, false
			ast.Inspect(st, func(m ast.Node) bool {
				if sel, ok := m.(*ast.SelectorExpr); ok {
					switch sel.Sel.Name {
					case "PositiveBucket":
						mPos = true
					case "NegativeBucket":
						mNeg = true
					}
					if isField(info, sel, fPos) {
						rPos = true
					}
					if isField(info, sel, fNeg) {
						rNeg = true
					}
				}
				return true
			})
			if mPos || mNeg {
				n++
			}
			if (mPos && rNeg) || (mNeg && rPos) {
				bad = append(bad, ax.M.posStr(st.Pos()))
			}
		}
		visit = func(st ast.Stmt) {
			switch s := st.(type) {
			case *ast.BlockStmt:
				for _, x := range s.List {
					visit(x)
				}
			case *ast.RangeStmt:
				visit(s.Body)
			case *ast.ForStmt:
				visit(s.Body)
			case *ast.IfStmt:
				visit(s.Body)
				if s.Else != nil {
					visit(s.Else)
				}
			default:
				check(st)
			}
		}
		visit(fn.Body())
		c.Check(n >= 4 && len(bad) == 0, rule, "aggregate|"+nm+"|positive/negative bucket roles agree", at(ax.M, fn.Pos()), itoa(n)+" statements, none mixes the signs",
			"a statement fills one sign's output bucket from the other sign's state (at "+joinStr(bad)+"): negative and positive bucket counts are swapped or duplicated, buckets no longer add up to count")
	}

}

// lowerBoundSearch: is e "the smallest index i with bounds[i] ≥ value" (len(bounds) when there is none), i.e. the
// upper-inclusive bucket index? Accepted forms: sort.SearchFloat64s(bounds, v), slices.BinarySearch(bounds, v) (first result),
// sort.Search(len(bounds), func(i int) bool { return bounds[i] >= v }) and equivalent spellings of the predicate, and a call of
// a declared function of the package whose only return is such an expression over its own parameter. v is the value, possibly
// converted to float64, possibly through a local with a single definition.
func lowerBoundSearch(ix *PkgIndex, fn *FuncInfo, e ast.Expr, fBounds *types.Var, isVal func(ast.Expr) bool, depth int) bool {
	info := ix.Pkg.TypesInfo
	g := ix.FG(fn)
	var isV func(x ast.Expr, d int) bool
	isV = func(x ast.Expr, d int) bool {
		x = unparen(x)
		if isVal(x) {
			return true
		}
		if conv, ok := x.(*ast.CallExpr); ok && len(conv.Args) == 1 {
			if tv, has := info.Types[conv.Fun]; has && tv.IsType() {
				return isV(conv.Args[0], d)
			}
		}
		if id, ok := x.(*ast.Ident); ok && d < 3 {
			if def := g.LocalDef(info.Uses[id]); def != nil {
				return isV(def, d+1)
			}
		}
		return false
	}
	isB := func(x ast.Expr) bool { return isField(info, x, fBounds) }
	call, ok := unparen(e).(*ast.CallExpr)
	if !ok {
		return false
	}
	if (isCallTo(info, call, "sort.SearchFloat64s") || isCallTo(info, call, "slices.BinarySearch")) && len(call.Args) == 2 {
		return isB(call.Args[0]) && isV(call.Args[1], 0)
	}
	if isCallTo(info, call, "sort.Search") && len(call.Args) == 2 {
		if !isLenOf(info, call.Args[0], isB) {
			return false
		}
		lit, ok := unparen(call.Args[1]).(*ast.FuncLit)
		if !ok || len(lit.Body.List) != 1 || lit.Type.Params.NumFields() != 1 {
			return false
		}
		rs, ok := lit.Body.List[0].(*ast.ReturnStmt)
		if !ok || len(rs.Results) != 1 {
			return false
		}
		iv := info.Defs[lit.Type.Params.List[0].Names[0]]
		isAt := func(x ast.Expr) bool {
			ie, ok := unparen(x).(*ast.IndexExpr)
			return ok && isB(ie.X) && iv != nil && sameVar(info, ie.Index, iv)
		}
		l, op, r, ok := cmpNorm(rs.Results[0], 1)
		if !ok {
			// !(bounds[i] < v)
			if ue, isNot := unparen(rs.Results[0]).(*ast.UnaryExpr); isNot && ue.Op == token.NOT {
				l, op, r, ok = cmpNorm(ue.X, -1)
			}
		}
		if !ok {
			return false
		}
		return (isAt(l) && op == token.GEQ && isV(r, 0)) || (isV(l, 0) && op == token.LEQ && isAt(r))
	}
	// helper of the package
	if depth > 0 {
		if h := ix.declByObj(callee(info, call)); h != nil && h != fn {
			ps := h.Obj.Type().(*types.Signature).Params()
			// the argument carrying the value
			vi := -1
			for i, a := range call.Args {
				if isV(a, 0) {
					vi = i
				}
			}
			if vi < 0 || vi >= ps.Len() {
				return false
			}
			hp := ps.At(vi)
			var rets []*ast.ReturnStmt
			inspectNoLit(h.Body(), func(n ast.Node) bool {
				if rs, ok := n.(*ast.ReturnStmt); ok {
					rets = append(rets, rs)
				}
				return true
			})
			if len(rets) != 1 || len(rets[0].Results) != 1 {
				return false
			}
			return lowerBoundSearch(ix, h, rets[0].Results[0], fBounds, func(x ast.Expr) bool { return sameVar(info, x, hp) }, depth-1)
		}
	}
	return false
}

// ruleRecycledPoints: the collect methods write their output into data points recycled from the destination of the previous
// collection (`reset` re-slices, it does not zero). pipeline.produce pairs destinations with instruments by position, so a
// recycled point may come from another instrument. Every field of the element that a collect loop assigns at all is therefore
// assigned on every path through the iteration — a field written only under `if !noSum` / `if !noMinMax` keeps what the
// slot's previous owner put there. Shared by C07.R10 (exact sum/min/max of every point) and C08.R9 (the two temporalities
// report the same optional fields).
func ruleRecycledPoints(c *Ctx, ax *PkgIndex, rule string) int {
	info := ax.Pkg.TypesInfo
	resetFn := ax.Func("reset")
	if resetFn == nil {
		c.Missing(rule, "aggregate.reset")
		return 0
	}
	nLoops := 0
	for _, f := range sortedFuncs(ax.Funcs) {
		if f.Body() == nil {
			continue
		}
		g := ax.FG(f)
		// locals that hold a recycled slice
		recycled := map[types.Object]bool{}
		inspectNoLit(f.Body(), func(n ast.Node) bool {
			if as, ok := n.(*ast.AssignStmt); ok && len(as.Lhs) == 1 && len(as.Rhs) == 1 {
				if call, ok := unparen(as.Rhs[0]).(*ast.CallExpr); ok && callToDecl(info, resetFn)(call) {
					if o := objOf(info, as.Lhs[0]); o != nil {
						recycled[o] = true
					}
				}
			}
			return true
		})
		if len(recycled) == 0 {
			continue
		}
		// element field written by node n: D[i].F = … / D[i].F.G = … / &D[i].F handed to a call
		fieldOfElem := func(e ast.Expr) (types.Object, string) {
			e = unparen(e)
			var path []string
			for {
				sel, ok := e.(*ast.SelectorExpr)
				if !ok {
					break
				}
				path = append([]string{sel.Sel.Name}, path...)
				e = unparen(sel.X)
			}
			ie, ok := e.(*ast.IndexExpr)
			if !ok || len(path) == 0 {
				return nil, ""
			}
			if o := objOf(info, ie.X); o != nil && recycled[o] {
				return o, path[0]
			}
			return nil, ""
		}
		writes := map[types.Object]map[string][]*GNode{}
		wholeElem := map[types.Object]bool{}
		for _, x := range g.Nodes {
			if x.N == nil || !g.InCycle(x) {
				continue
			}
			inspectNoLit(x.N, func(n ast.Node) bool {
				switch y := n.(type) {
				case *ast.AssignStmt:
					for _, l := range y.Lhs {
						if o, fld := fieldOfElem(l); o != nil {
							if writes[o] == nil {
								writes[o] = map[string][]*GNode{}
							}
							writes[o][fld] = append(writes[o][fld], x)
						}
						if ie, ok := unparen(l).(*ast.IndexExpr); ok {
							if o := objOf(info, ie.X); o != nil && recycled[o] {
								wholeElem[o] = true // D[i] = T{…}: the whole point is replaced
							}
						}
					}
				case *ast.UnaryExpr:
					if y.Op == token.AND {
						if o, fld := fieldOfElem(y.X); o != nil {
							if writes[o] == nil {
								writes[o] = map[string][]*GNode{}
							}
							writes[o][fld] = append(writes[o][fld], x)
						}
					}
				}
				return true
			})
		}
		var objs []types.Object
		for o := range writes {
			objs = append(objs, o)
		}
		sort.Slice(objs, func(i, j int) bool { return objs[i].Pos() < objs[j].Pos() })
		for _, o := range objs {
			if wholeElem[o] {
				continue
			}
			nLoops++
			var flds []string
			for fld := range writes[o] {
				flds = append(flds, fld)
			}
			sort.Strings(flds)
			// the loop: the innermost loop body containing the first write
			var bad []string
			var badPos token.Pos
			for _, fld := range flds {
				ws := toSet(writes[o][fld])
				first := writes[o][fld][0]
				// some write of the field lies on every path of an iteration: walking back from the loop's back edge … simpler
				// forward form: from any other field's write site of the same iteration a path to the loop head avoiding ws
				// must not exist for *every* iteration entry. Use the iteration head of the loop that encloses `first`.
				var body *GNode
				bestSpan := 1 << 40
				for b, h := range g.head {
					k := b.Kind.String()
					if (k == "RangeBody" || k == "ForBody") && b.Stmt != nil && containsNoLit(b.Stmt, first.N) {
						if span := nodeCount(b.Stmt); span < bestSpan {
							bestSpan, body = span, h
						}
					}
				}
				if body == nil {
					continue
				}
				loopStmt := body.Blk.Stmt
				seen, parent := g.Reach([]*GNode{body}, func(y *GNode) bool { return ws[y] }, nil)
				for y := range seen {
					if y.N == nil && y.Blk != nil && y.Blk.Stmt == loopStmt {
						k := y.Blk.Kind.String()
						if k == "RangeLoop" || k == "ForLoop" || k == "ForPost" {
							bad = append(bad, fld+" ("+g.pathLines(parent, y)+")")
							if badPos == token.NoPos {
								badPos = first.N.Pos()
							}
						}
					}
				}
			}
			key := "aggregate|" + f.Name + "|every assigned field of the recycled points " + o.Name() + " is assigned on every path of the iteration"
			pos := f.Pos()
			if badPos != token.NoPos {
				pos = badPos
			}
			c.Check(len(bad) == 0, rule, key, at(ax.M, pos), itoa(len(flds))+" fields, each written in every iteration",
				"an iteration can leave "+joinStr(bad)+" of a recycled data point as the slot's previous owner wrote it: the point reports a sum / minimum / maximum that is not its own (the slot may have belonged to another instrument)")
		}
	}
	return nLoops
}

// ruleExpoWindowZeroed: expoBuckets.record grows its window inside spare capacity; what down-scaling left behind len must be zeroed
// before it is exposed, and on the prepend side the zeroing reaches the shift of the copy. Shared by C07.R8 and C08.R10 (a
// cumulative point that is down-scaled and grows again would report counts its deltas never contained).
func ruleExpoWindowZeroed(c *Ctx, ax *PkgIndex, rule string) {
	info := ax.Pkg.TypesInfo
	if fn := c.Fn(ax, rule, "(*expoBuckets).record"); fn != nil {
		g := ax.FG(fn)
		fCounts := lookupField(ax.Pkg, "expoBuckets", "counts")
		isCounts := func(e ast.Expr) bool { return isField(info, e, fCounts) }
		// growth inside capacity: counts = counts[:E] (no low bound) — everything else allocates zeroed memory
		grows := g.Match(func(n ast.Node) bool {
			r := assignRHS(n, isCounts)
			if r == nil {
				return false
			}
			se, ok := unparen(r).(*ast.SliceExpr)
			return ok && isCounts(se.X) && se.Low == nil && se.High != nil
		})
		zeroes := toSet(g.Match(func(n ast.Node) bool {
			switch s := n.(type) {
			case *ast.AssignStmt:
				if len(s.Lhs) == 1 && len(s.Rhs) == 1 {
					if ie, ok := unparen(s.Lhs[0]).(*ast.IndexExpr); ok && isCounts(ie.X) && g.InCycle(g.NodeOf(s)) {
						if v, isC := constInt(info, s.Rhs[0]); isC && v == 0 {
							return true
						}
					}
				}
			case *ast.CallExpr:
				if builtinName(info, s) == "clear" && len(s.Args) == 1 {
					if se, ok := unparen(s.Args[0]).(*ast.SliceExpr); ok && isCounts(se.X) {
						return true
					}
				}
			}
			return false
		}))
		for _, x := range grows {
			// a zeroing construct (element stores of 0 in a loop, or clear of a sub-slice) can follow before the function returns
			after, _ := g.Reach([]*GNode{x}, nil, nil)
			has := false
			for z := range zeroes {
				if after[z] {
					has = true
				}
			}
			c.Check(has, rule, "aggregate|(*expoBuckets).record|window grown within capacity ("+exprStr(assignRHS(x.N, isCounts))+") is zeroed", at(ax.M, x.N.Pos()), "re-slice followed by a zeroing loop/clear",
				"the window is re-sliced into spare capacity without zeroing the exposed slots: counts left behind by an earlier down-scale reappear (bucket counts sum to more than Count)")
		}
		// extent of the zeroing on the prepend side: the old counts are moved up by S (copy into counts[S:…]); whatever zeroes the
		// gap must run up to that same S — a smaller bound (the old length, a min of the two) leaves slots of the spare capacity
		// between the old length and S as they were
		sameLin := func(a, b ast.Expr) bool {
			expand := func(e ast.Expr) ast.Expr {
				if id, ok := unparen(e).(*ast.Ident); ok {
					if d := g.LocalDef(info.Uses[id]); d != nil {
						if _, isCall := unparen(d).(*ast.CallExpr); isCall || true {
							ta, ka := linearForm(info, d)
							if len(ta) > 0 || ka != 0 {
								return d
							}
						}
					}
				}
				return e
			}
			eq := func(x, y ast.Expr) bool {
				tx, kx := linearForm(info, x)
				ty, ky := linearForm(info, y)
				if kx != ky || len(tx) != len(ty) {
					return false
				}
				for k, v := range tx {
					if ty[k] != v {
						return false
					}
				}
				return true
			}
			return eq(a, b) || eq(expand(a), expand(b)) || eq(expand(a), b) || eq(a, expand(b))
		}
		var shiftLow []ast.Expr
		inspectNoLit(fn.Body(), func(n ast.Node) bool {
			if call, ok := n.(*ast.CallExpr); ok && builtinName(info, call) == "copy" && len(call.Args) == 2 {
				if se, ok := unparen(call.Args[0]).(*ast.SliceExpr); ok && isCounts(se.X) && se.Low != nil {
					if v, isC := constInt(info, se.Low); !isC || v != 0 {
						shiftLow = append(shiftLow, se.Low)
					}
				}
			}
			return true
		})
		for _, S := range shiftLow {
			// zeroing constructs in the same block as the copy
			var blk *ast.BlockStmt
			ast.Inspect(fn.Body(), func(n ast.Node) bool {
				switch b := n.(type) {
				case *ast.BlockStmt:
					for _, st := range b.List {
						if containsNoLit(st, S) {
							if _, nested := st.(*ast.BlockStmt); !nested {
								blk = b
							}
						}
					}
				case *ast.CaseClause:
					for _, st := range b.Body {
						if containsNoLit(st, S) {
							blk = &ast.BlockStmt{List: b.Body}
						}
					}
				}
				return true
			})
			if blk == nil {
				continue
			}
			nz, bad := 0, ""
			for _, st := range blk.List {
				switch x := st.(type) {
				case *ast.ForStmt:
					// for i := k; i < U; i++ { counts[i] = 0 }
					zeroing := false
					inspectNoLit(x.Body, func(n ast.Node) bool {
						if as, ok := n.(*ast.AssignStmt); ok && len(as.Lhs) == 1 && len(as.Rhs) == 1 {
							if ie, ok := unparen(as.Lhs[0]).(*ast.IndexExpr); ok && isCounts(ie.X) {
								if v, isC := constInt(info, as.Rhs[0]); isC && v == 0 {
									zeroing = true
								}
							}
						}
						return true
					})
					if !zeroing {
						continue
					}
					nz++
					be, ok := unparen(x.Cond).(*ast.BinaryExpr)
					if !ok {
						bad = "loop condition " + exprStr(x.Cond)
						continue
					}
					l, op, r, good := cmpNorm(be, 1)
					_ = l
					switch {
					case good && op == token.LSS && sameLin(r, S):
					case good && op == token.LEQ && sameLin(&ast.BinaryExpr{X: r, Op: token.ADD, Y: &ast.BasicLit{Kind: token.INT, Value: "1"}}, S):
					default:
						bad = "the zeroing loop runs while " + exprStr(x.Cond) + ", the counts were moved up by " + exprStr(S)
					}
				case *ast.ExprStmt:
					call, ok := x.X.(*ast.CallExpr)
					if !ok || builtinName(info, call) != "clear" || len(call.Args) != 1 {
						continue
					}
					se, ok := unparen(call.Args[0]).(*ast.SliceExpr)
					if !ok || !isCounts(se.X) {
						continue
					}
					nz++
					if se.Low != nil {
						if v, isC := constInt(info, se.Low); !isC || v > 1 {
							bad = "clear starts at " + exprStr(se.Low)
						}
					}
					if se.High == nil || !sameLin(se.High, S) {
						hi := "the end"
						if se.High != nil {
							hi = exprStr(se.High)
						}
						bad = "clear runs up to " + hi + ", the counts were moved up by " + exprStr(S)
					}
				}
			}
			if nz == 0 {
				continue // reported by the obligation above
			}
			c.Check(bad == "", rule, "aggregate|(*expoBuckets).record|gap in front of the moved counts is zeroed up to the shift", at(ax.M, S.Pos()), "zeroing bound = shift of the copy ("+exprStr(S)+")",
				"slots between the zeroed prefix and the moved counts keep what an earlier down-scale left in the spare capacity (bucket counts sum to more than Count): "+bad)
		}
		if len(grows) < 2 {
			c.Undecided(rule, "aggregate|(*expoBuckets).record|growth sites", at(ax.M, fn.Pos()), itoa(len(grows))+" in-capacity growth sites found, 2 confirmed by reading")
		}
	}
}
