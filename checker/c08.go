package main

import (
	"go/ast"
	"go/token"
	"go/types"
	"strings"
)

func init() {
	register(&PropDoc{
		ID:         "C08",
		Modules:    []string{"sdk/metric"},
		NotDecided: "the numeric relation cumulative = Σ delta; behaviour across callback (un)registration histories; monotonicity of reported values as numbers.",
		Fn:         c08,
	})
}

func c08(c *Ctx) {
	c.FollowDelegates = true
	defer func() { c.FollowDelegates = false }()
	ax := c.Index("sdk/metric", aggPkg)
	mx := c.Index("sdk/metric", sdkMetric)
	if ax == nil || mx == nil {
		return
	}
	info := ax.Pkg.TypesInfo
	minfo := mx.Pkg.TypesInfo

	c.Rule("R1", "E1 atomic section + E5", "delta clears and advances start atomically (= C02.R2); synchronous cumulative retains values and start (= C02.R3)", 10)
	ruleDeltaAtomic(c, ax, "R1")
	ruleCumulativeRetains(c, ax, "R1")

	c.Rule("R2", "E4 value identity", "every point's Time is this call's t := now() and StartTime is the aggregator's start; delta stores that same t into start; start has no writer but constructors and delta", 14)
	// now() variable per function
	nowVar := func(fn *FuncInfo) types.Object {
		var tv types.Object
		n := 0
		inspectNoLit(fn.Body(), func(nd ast.Node) bool {
			if as, ok := nd.(*ast.AssignStmt); ok && len(as.Lhs) == 1 && len(as.Rhs) == 1 {
				if call, ok := unparen(as.Rhs[0]).(*ast.CallExpr); ok {
					if v, ok := objOf(info, call.Fun).(*types.Var); ok && v.Name() == "now" {
						tv = objOf(info, as.Lhs[0])
						n++
					}
				}
			}
			return true
		})
		if n != 1 {
			return nil
		}
		return tv
	}
	copyDpts := ax.Func("(*lastValue).copyDpts")
	checkTimes := func(fn *FuncInfo, typ string, tIs func(ast.Expr) bool) (nTime, nStart int, bad string) {
		fStart := aggField(ax, typ, "start")
		// stores made directly or through a helper that is handed the values (judged on the arguments of that call)
		for _, st := range ax.fieldStores(fn, fn.Body()) {
			fv := st.Field
			if fv.Pkg() == nil || fv.Pkg().Path() != metricdata || st.Helper == copyDpts {
				continue
			}
			if st.Helper != nil && !strings.Contains(namedTypeName(st.Owner), "DataPoint") {
				// a helper filling something other than the point itself (exemplars carry their own measurement time)
				continue
			}
			switch fv.Name() {
			case "Time":
				nTime++
				if !st.Mapped || !tIs(st.Rhs) {
					bad = "Time ← " + exprStr(st.Rhs) + " at " + ax.M.posStr(st.At.Pos())
				}
			case "StartTime":
				nStart++
				if !st.Mapped || !isField(info, st.Rhs, fStart) {
					bad = "StartTime ← " + exprStr(st.Rhs) + " at " + ax.M.posStr(st.At.Pos())
				}
			}
		}
		return
	}
	for _, a := range aggSpecs {
		for _, m := range []string{"delta", "cumulative"} {
			fn := c.Fn(ax, "R2", "(*"+a.typ+")."+m)
			if fn == nil {
				continue
			}
			key := "aggregate|(*" + a.typ + ")." + m + "|Time ← t := now(), StartTime ← start"
			tv := nowVar(fn)
			if tv == nil {
				c.Violation("R2", key, at(ax.M, fn.Pos()), "the collection timestamp is not taken exactly once with now()")
				continue
			}
			nT, nS, bad := checkTimes(fn, a.typ, func(e ast.Expr) bool { return sameVar(info, e, tv) })
			// via copyDpts(dest, t)
			inspectNoLit(fn.Body(), func(nd ast.Node) bool {
				if call, ok := nd.(*ast.CallExpr); ok && callToDecl(info, copyDpts)(call) {
					if len(call.Args) == 2 && sameVar(info, call.Args[1], tv) {
						nT++
						nS++
					} else {
						bad = "copyDpts is not handed this call's timestamp"
					}
				}
				return true
			})
			c.Check(bad == "" && nT >= 1 && nS >= 1, "R2", key, at(ax.M, fn.Pos()), "all points stamped [start, t]", "a data point's interval is not [aggregator start, this collection's time]: "+bad)
		}
	}
	if copyDpts != nil {
		tp := copyDpts.Obj.Type().(*types.Signature).Params().At(1)
		nT, nS, bad := checkTimes(copyDpts, "lastValue", func(e ast.Expr) bool { return sameVar(info, e, tp) })
		c.Check(bad == "" && nT == 1 && nS == 1, "R2", "aggregate|(*lastValue).copyDpts|Time ← parameter t, StartTime ← start", at(ax.M, copyDpts.Pos()), "helper stamps [start, t]", "gauge points are mis-stamped: "+bad)
	} else {
		c.Missing("R2", "aggregate.(*lastValue).copyDpts")
	}
	// writers of start
	starts := map[*types.Var]bool{}
	for _, a := range aggSpecs {
		if f := aggField(ax, a.typ, "start"); f != nil {
			starts[f] = true
		}
	}
	deltaFns := map[*FuncInfo]bool{}
	for _, a := range aggSpecs {
		if f := ax.Func("(*" + a.typ + ").delta"); f != nil {
			deltaFns[f] = true
		}
	}
	cnt := map[string]int{}
	for _, acc := range ax.fieldAccesses(starts) {
		if !acc.Write {
			continue
		}
		outer := ax.Outer(acc.F)
		cnt[outer.Name]++
		okWriter := deltaFns[outer]
		if !okWriter {
			// a shared implementation (or a helper): every caller is a delta method, or a method that selects the implementation
			// with a constant under which this write is pruned away
			sites := ax.Calls[outer.Obj]
			okWriter = outer.Obj != nil && len(sites) > 0
			for _, cs := range sites {
				m := ax.Outer(cs.In)
				if deltaFns[m] {
					continue
				}
				spec, _ := ax.delegateUnder(m)
				present := true
				if spec != nil && spec != m && spec.Obj == outer.Obj {
					present = false
					ast.Inspect(spec.Body(), func(nd ast.Node) bool {
						if nd == ast.Node(acc.Sel) {
							present = true
						}
						return !present
					})
				}
				if present {
					okWriter = false
				}
			}
		}
		c.Check(okWriter, "R2", "aggregate|"+outer.Name+"|write of start #"+itoa(cnt[outer.Name])+" only in delta", at(ax.M, acc.Sel.Pos()),
			"start advances only when a delta interval is closed", "start is modified outside a delta collection: reported intervals overlap or leave gaps")
	}

	c.Rule("R3", "E2 constants", "each collect method labels its output with its own temporality", 8)
	for _, typ := range []string{"sum", "precomputedSum", "histogram", "expoHistogram"} {
		for _, m := range []string{"delta", "cumulative"} {
			fn := c.Fn(ax, "R3", "(*"+typ+")."+m)
			if fn == nil {
				continue
			}
			want := map[string]string{"delta": "DeltaTemporality", "cumulative": "CumulativeTemporality"}[m]
			var got []string
			inspectNoLit(fn.Body(), func(nd ast.Node) bool {
				as, ok := nd.(*ast.AssignStmt)
				if !ok || len(as.Lhs) != len(as.Rhs) {
					return true
				}
				for i, l := range as.Lhs {
					if fv, _ := fieldOf(info, l); fv != nil && fv.Name() == "Temporality" && fv.Pkg().Path() == metricdata {
						if k := constObj(info, as.Rhs[i]); k != nil {
							got = append(got, k.Name())
						} else if v, bound := fn.Spec[objOf(info, as.Rhs[i])]; bound {
							// the shared implementation labels with its mode parameter: the constant this method passes
							got = append(got, constNameOf(fv.Pkg(), fv.Type(), v))
						} else {
							got = append(got, exprStr(as.Rhs[i]))
						}
					}
				}
				return true
			})
			c.Check(len(got) == 1 && got[0] == want, "R3", "aggregate|(*"+typ+")."+m+"|Temporality label", at(ax.M, fn.Pos()), "= "+want,
				"output labelled "+strings.Join(got, ",")+", the method computes "+want+" (a backend would double-count or under-count)")
		}
	}

	c.Rule("R4", "E4 formula shape", "precomputed sums: delta = value − reported[key], newReported[key] = value, reported replaced wholesale; precomputed aggregators empty values every cycle", 5)
	if fn := c.Fn(ax, "R4", "(*precomputedSum).delta"); fn != nil {
		fRep := lookupField(ax.Pkg, "precomputedSum", "reported")
		fN := lookupField(ax.Pkg, "sumValue", "n")
		var rng *ast.RangeStmt
		fVals := aggField(ax, "precomputedSum", "values")
		inspectNoLit(fn.Body(), func(nd ast.Node) bool {
			if r, ok := nd.(*ast.RangeStmt); ok && isField(info, r.X, fVals) {
				rng = r
			}
			return true
		})
		good, why := rng != nil && rng.Key != nil && rng.Value != nil, "range over values with key and value not found"
		if good {
			k, v := objOf(info, rng.Key), objOf(info, rng.Value)
			isValN := func(e ast.Expr) bool {
				if !isField(info, e, fN) {
					return false
				}
				_, b := fieldOf(info, e)
				return sameVar(info, b, v)
			}
			var newRep types.Object
			newPath := ""
			gq := ax.FG(fn)
			// locals with a single definition stand for that definition (delta := …, prev := s.reported[key])
			resolve := func(e ast.Expr) ast.Expr {
				for d := 0; d < 3; d++ {
					id, ok := unparen(e).(*ast.Ident)
					if !ok {
						break
					}
					def := gq.LocalDef(info.Uses[id])
					if def == nil {
						break
					}
					e = def
				}
				return unparen(e)
			}
			// the map the previous cycle's values are read from: the reported field itself, or a map held inside it when the
			// field became a small struct (reported.last) — named by its access path
			underRep := func(e ast.Expr) bool {
				for cur := unparen(e); ; {
					if isField(info, cur, fRep) {
						return true
					}
					sel, isSel := cur.(*ast.SelectorExpr)
					if !isSel {
						return false
					}
					cur = unparen(sel.X)
				}
			}
			repPath := ""
			isDelta := func(e ast.Expr) bool {
				be, ok := resolve(e).(*ast.BinaryExpr)
				if !ok || be.Op != token.SUB || !isValN(resolve(be.X)) {
					return false
				}
				ie, ok := resolve(be.Y).(*ast.IndexExpr)
				// the map may be read through a local that stands for the field (prev := s.reported)
				if !ok {
					return false
				}
				mx := resolve(ie.X)
				if !underRep(mx) || !sameVar(info, ie.Index, k) {
					return false
				}
				if _, isMap := info.TypeOf(ie.X).Underlying().(*types.Map); !isMap {
					return false
				}
				if p := pathKey(info, mx); p != "" {
					repPath = p
				}
				return true
			}
			deltaSeen, valueStored, repStored := false, false, false
			ast.Inspect(rng.Body, func(nd ast.Node) bool {
				if be, ok := nd.(*ast.BinaryExpr); ok && isDelta(be) {
					deltaSeen = true
				}
				as, ok := nd.(*ast.AssignStmt)
				if !ok || len(as.Lhs) != 1 || len(as.Rhs) != 1 {
					return true
				}

				if ie, ok := unparen(as.Lhs[0]).(*ast.IndexExpr); ok && sameVar(info, ie.Index, k) && isValN(as.Rhs[0]) {
					newRep = objOf(info, ie.X)
					newPath = pathKey(info, ie.X)
					repStored = newPath != ""
				}
				return true
			})
			// every store into the point's Value in the loop is the difference (a later overwrite would win)
			nVal, nDelta := 0, 0
			for _, st := range ax.fieldStores(fn, rng.Body) {
				if st.Field.Name() == "Value" && st.Field.Pkg() != nil && st.Field.Pkg().Path() == metricdata && strings.Contains(namedTypeName(st.Owner), "DataPoint") {
					nVal++
					if st.Mapped && isDelta(st.Rhs) {
						nDelta++
					}
				}
			}
			valueStored = nVal > 0 && nVal == nDelta
			// the map read from is replaced wholesale by the map this cycle's values were stored into, and that one was made
			// fresh in this call (both named by access path: a local, or a second map kept next to the first)
			replaced, freshN, staleN := false, 0, 0
			inspectNoLit(fn.Body(), func(nd ast.Node) bool {
				as, ok := nd.(*ast.AssignStmt)
				if !ok || len(as.Lhs) != len(as.Rhs) {
					return true
				}
				for i, l := range as.Lhs {
					lp := pathKey(info, l)
					if lp == "" {
						continue
					}
					if lp == repPath && repPath != "" && newPath != "" && pathKey(info, as.Rhs[i]) == newPath {
						replaced = true
					}
					if lp == newPath && newPath != "" {
						switch r := unparen(as.Rhs[i]).(type) {
						case *ast.CallExpr:
							if builtinName(info, r) == "make" {
								freshN++
							} else {
								staleN++
							}
						case *ast.CompositeLit:
							freshN++
						default:
							if !isNilIdent(info, as.Rhs[i]) {
								staleN++
							}
						}
					}
				}
				return true
			})
			_ = newRep
			fresh := freshN >= 1 && staleN == 0
			switch {
			case !deltaSeen:
				good, why = false, "no `value.n − reported[key]` with the range key"
			case !valueStored:
				good, why = false, "the point's Value is not that difference"
			case !repStored:
				good, why = false, "this cycle's value is not remembered under the same key"
			case !replaced || !fresh:
				good, why = false, "reported is not replaced wholesale by a fresh map (a set not observed in the preceding cycle must subtract zero)"
			}
		}
		c.Check(good, "R4", "aggregate|(*precomputedSum).delta|delta = value − reported[key]; reported := this cycle's values", at(ax.M, fn.Pos()), "formula shape as specified", "precomputed delta formula changed: "+why)
	}
	for _, nm := range []string{"(*precomputedSum).delta", "(*precomputedSum).cumulative", "(*precomputedLastValue).delta", "(*precomputedLastValue).cumulative"} {
		fn := c.Fn(ax, "R4", nm)
		if fn == nil {
			continue
		}
		typ := strings.TrimSuffix(strings.TrimPrefix(strings.Split(nm, ")")[0], "(*"), "")
		fVals := aggField(ax, typ, "values")
		g := ax.FG(fn)
		em := toSet(g.Match(func(n ast.Node) bool { return isEmptying(info, n, fVals) }))
		s, _ := g.ReachFromEntry(func(x *GNode) bool { return em[x] }, nil)
		c.Check(len(em) > 0 && !s[g.Exit], "R4", "aggregate|"+nm+"|values emptied every cycle", at(ax.M, fn.Pos()), "reports only what this cycle observed",
			"an attribute set that is no longer observed keeps being reported with its stale value")
	}

	c.Rule("R5", "E4 provenance", "Builder.Temporality is fed from reader.temporality(kind) of the pipeline's reader, with the instrument's kind", 1)
	ruleBuilderWiring(c, mx, "R5", []string{"Temporality"})

	c.Rule("R6", "E3 dominance", "observer routing: measures are invoked only for observables registered with this callback; each reader pipeline is given, and its callbacks write through, that pipeline's own measures", 4)
	for _, nm := range []string{"observer.ObserveInt64", "observer.ObserveFloat64"} {
		fn := c.Fn(mx, "R6", nm)
		if fn == nil {
			continue
		}
		isMeasureCall := func(n ast.Node) bool {
			call, ok := n.(*ast.CallExpr)
			if !ok {
				return false
			}
			v, ok := objOf(minfo, call.Fun).(*types.Var)
			if !ok {
				return false
			}
			nn := namedOf(v.Type())
			return nn != nil && nn.Obj().Name() == "Measure"
		}
		// the registered test and the measure loop may live in a shared helper of the two exported methods
		fn, _ = mx.workFunc(fn, isMeasureCall)
		g := mx.FG(fn)
		// "registered": the comma-ok flag of a look-up in a set keyed by observableID (map[observableID[N]]struct{}), whatever the
		// set is called and wherever it comes from (the observer's field, or a parameter of the helper)
		var reg types.Object
		inspectNoLit(fn.Body(), func(nd ast.Node) bool {
			if as, ok := nd.(*ast.AssignStmt); ok && len(as.Lhs) == 2 && len(as.Rhs) == 1 {
				if ie, ok := unparen(as.Rhs[0]).(*ast.IndexExpr); ok {
					if tv, has := minfo.Types[ie.X]; has {
						if mt, isMap := tv.Type.Underlying().(*types.Map); isMap {
							kn := namedOf(mt.Key())
							_, isSet := mt.Elem().Underlying().(*types.Struct)
							if kn != nil && kn.Obj().Name() == "observableID" && isSet {
								reg = objOf(minfo, as.Lhs[1])
							}
						}
					}
				}
			}
			return true
		})
		calls := g.Match(isMeasureCall)
		good := reg != nil && len(calls) == 1
		why := ""
		if good {
			good, why = g.DominatedByEdges(calls[0], func(e *GEdge) bool {
				return edgeImplies(e, func(cnd ast.Expr, pol int) bool { return pol > 0 && sameVar(minfo, cnd, reg) })
			})
		}
		c.Check(good, "R6", "sdk/metric|"+nm+"|measure loop dominated by the registered test", at(mx.M, fn.Pos()), "unregistered observables are ignored",
			"an observation for an instrument not registered with this callback is recorded: "+why)
	}

	// per-pipeline routing of observable measures: what is registered with a reader's pipeline, and what that pipeline's
	// callbacks write through, are the measures this pipeline's own inserter returned (not the instrument's accumulated list)
	for _, nm := range []string{"(*meter).int64ObservableInstrument", "(*meter).float64ObservableInstrument"} {
		fn := c.Fn(mx, "R6", nm)
		if fn == nil {
			continue
		}
		for _, lf := range mx.All {
			if mx.Outer(lf) != fn {
				continue
			}
			// `in, err := insert.Instrument(…)` with insert the range variable over the resolver's inserters
			var in types.Object
			inspectNoLit(lf.Body(), func(nd ast.Node) bool {
				if as, ok := nd.(*ast.AssignStmt); ok && len(as.Lhs) == 2 && len(as.Rhs) == 1 {
					if call, ok := unparen(as.Rhs[0]).(*ast.CallExpr); ok {
						if cf := callee(minfo, call); cf != nil && cf.Name() == "Instrument" {
							if rv := cf.Type().(*types.Signature).Recv(); rv != nil && typeIs(rv.Type(), sdkMetric, "inserter") {
								in = objOf(minfo, as.Lhs[0])
							}
						}
					}
				}
				return true
			})
			if in == nil {
				continue
			}
			n, bad := 0, ""
			inspectNoLit(lf.Body(), func(nd ast.Node) bool {
				switch x := nd.(type) {
				case *ast.CallExpr:
					if cf := callee(minfo, x); cf != nil && (cf.Name() == "addInt64Measure" || cf.Name() == "addFloat64Measure") && len(x.Args) == 2 {
						n++
						if !sameVar(minfo, x.Args[1], in) {
							bad = cf.Name() + " is given " + exprStr(x.Args[1]) + " at " + mx.M.posStr(x.Pos())
						}
					}
				case *ast.CompositeLit:
					if tv, ok := minfo.Types[x]; ok && (typeIs(tv.Type, sdkMetric, "int64Observer") || typeIs(tv.Type, sdkMetric, "float64Observer")) {
						for _, el := range x.Elts {
							if kv, ok := el.(*ast.KeyValueExpr); ok {
								if id, _ := kv.Key.(*ast.Ident); id != nil && id.Name == "measures" {
									n++
									if !sameVar(minfo, kv.Value, in) {
										bad = "the callback's observer is given " + exprStr(kv.Value) + " at " + mx.M.posStr(kv.Pos())
									}
								}
							}
						}
					}
				}
				return true
			})
			c.Check(bad == "" && n >= 2, "R6", "sdk/metric|"+nm+"|pipeline registration and callbacks use this pipeline's own measures", at(mx.M, fn.Pos()), itoa(n)+" uses, all of the inserter's result for this pipeline",
				"measures of other reader pipelines are registered with (or written through by the callbacks of) this pipeline — a callback run for one reader also writes into the other readers' aggregators (stale or doubled values there): "+bad)
		}
	}

	c.Rule("R8", "E4 role agreement", "exponential collect methods: positive/negative bucket roles agree in delta and cumulative (= C07.R7)", 2)
	ruleSignRoles(c, ax, "R8")

	c.Rule("R11", "E3 must-pass (shared with C02.R12)", "every collect method walks its own values on every path: a cumulative value is never what the destination held from an earlier (or another stream's) collection", 8)
	ruleCollectRebuilds(c, ax, "R11")

	c.Rule("R10", "E3 must-pass (shared with C07.R8)", "exponential buckets: a window grown inside spare capacity is zeroed before use (a cumulative point that was down-scaled and grows again must not report counts none of its deltas contained)", 2)
	ruleExpoWindowZeroed(c, ax, "R10")

	c.Rule("R9", "E8 fieldcover on every path (shared)", "delta and cumulative collect methods rewrite every field of the recycled output points in every iteration (= C07.R10): a delta and a cumulative reader of one instrument report the same optional fields (Sum, Min, Max)", 4)
	ruleRecycledPoints(c, ax, "R9")

	c.Rule("R7", "E3 + E2 (shared)", "callbacks run before compute (= C02.R6); observable kinds get precomputed aggregators (= C02.R9)", 20)
	rulePipelineProduce(c, mx, "R7")
	ruleAggregateFunc(c, mx, "R7")
}

// freshSliceOrMap: local v is only ever assigned make(...) / composite literal in fn.
func (ix *PkgIndex) freshSliceOrMap(fn *FuncInfo, v types.Object) bool {
	info := fn.Info()
	ok, seen := true, false
	ast.Inspect(fn.Body(), func(n ast.Node) bool {
		as, isAs := n.(*ast.AssignStmt)
		if !isAs {
			return true
		}
		for i, l := range as.Lhs {
			if sameVar(info, l, v) {
				seen = true
				if len(as.Lhs) != len(as.Rhs) {
					ok = false
					continue
				}
				switch r := unparen(as.Rhs[i]).(type) {
				case *ast.CallExpr:
					if builtinName(info, r) != "make" {
						ok = false
					}
				case *ast.CompositeLit:
				default:
					ok = false
				}
			}
		}
		return true
	})
	return ok && seen
}

// ruleBuilderWiring (C08.R5 / C12.R4): the aggregate.Builder built in cachedAggregator gets each listed field from its specified source.
func ruleBuilderWiring(c *Ctx, mx *PkgIndex, rule string, fields []string) {
	info := mx.Pkg.TypesInfo
	fn := c.Fn(mx, rule, "(*inserter).cachedAggregator")
	if fn == nil {
		return
	}
	kind := fn.Obj.Type().(*types.Signature).Params().At(1)
	stream := fn.Obj.Type().(*types.Signature).Params().At(2)
	// collect field ← expr for the Builder (composite literal keys and later assignments b.F = …), in cachedAggregator or in a
	// declared helper it calls that returns the Builder (its kind / stream parameters stand for the arguments it is given)
	src := map[string]ast.Expr{}
	srcStmt := map[string]Site{}
	kindAlias, streamAlias := map[types.Object]bool{kind: true}, map[types.Object]bool{stream: true}
	helpers := map[*FuncInfo]bool{}
	for _, f := range mx.All {
		if mx.Outer(f) != fn {
			continue
		}
		inspectNoLit(f.Body(), func(n ast.Node) bool {
			call, ok := n.(*ast.CallExpr)
			if !ok {
				return true
			}
			d := mx.declByObj(callee(info, call))
			if d == nil || d == fn || d.Obj == nil {
				return true
			}
			res := d.Obj.Type().(*types.Signature).Results()
			if res.Len() != 1 || !typeIs(res.At(0).Type(), aggPkg, "Builder") {
				return true
			}
			helpers[d] = true
			ps := d.Obj.Type().(*types.Signature).Params()
			for i := 0; i < ps.Len() && i < len(call.Args); i++ {
				if sameVar(info, call.Args[i], kind) {
					kindAlias[ps.At(i)] = true
				}
				if sameVar(info, call.Args[i], stream) {
					streamAlias[ps.At(i)] = true
				}
			}
			return true
		})
	}
	isKind := func(e ast.Expr) bool { o := objOf(info, e); return o != nil && kindAlias[o] }
	isStream := func(e ast.Expr) bool { o := objOf(info, e); return o != nil && streamAlias[o] }
	for _, f := range mx.All {
		if mx.Outer(f) != fn && !helpers[mx.Outer(f)] {
			continue
		}
		inspectNoLit(f.Body(), func(n ast.Node) bool {
			switch x := n.(type) {
			case *ast.CompositeLit:
				if typeIs(info.Types[x].Type, aggPkg, "Builder") {
					for _, el := range x.Elts {
						if kv, ok := el.(*ast.KeyValueExpr); ok {
							src[kv.Key.(*ast.Ident).Name] = kv.Value
						}
					}
				}
			case *ast.AssignStmt:
				for i, l := range x.Lhs {
					if sel, ok := unparen(l).(*ast.SelectorExpr); ok {
						if tv, ok := info.Types[sel.X]; ok && typeIs(tv.Type, aggPkg, "Builder") {
							if len(x.Rhs) == len(x.Lhs) {
								src[sel.Sel.Name] = x.Rhs[i]
							} else if len(x.Rhs) == 1 {
								src[sel.Sel.Name] = x.Rhs[0]
							}
							srcStmt[sel.Sel.Name] = Site{f, x}
						}
					}
				}
			}
			return true
		})
	}
	tupleGuarded := map[string]bool{}
	for _, fld := range fields {
		e := src[fld]
		key := "sdk/metric|(*inserter).cachedAggregator|Builder." + fld + " source"
		site := at(mx.M, fn.Pos())
		if e == nil {
			c.Violation(rule, key, site, "Builder."+fld+" is never set: the aggregator ignores the configured "+fld)
			continue
		}
		good := false
		switch fld {
		case "Temporality":
			if call, ok := unparen(e).(*ast.CallExpr); ok && isCallTo(info, call, "("+sdkMetric+".Reader).temporality") && len(call.Args) == 1 && isKind(call.Args[0]) {
				recv, _ := methodCall(info, call)
				good = strings.HasSuffix(exprStr(recv), ".pipeline.reader")
			}
		case "Filter":
			if fv, b := fieldOf(info, e); fv != nil && fv.Name() == "AttributeFilter" && isStream(b) {
				good = true
			}
		case "AggregationLimit":
			if id, isID := unparen(e).(*ast.Ident); isID {
				// limit, ok := X.Lookup(); if ok { b.AggregationLimit = limit }: the value of the look-up (zero, the field's zero
				// value, when ok is false)
				if st, has := srcStmt[fld]; has {
					if td, hasT := mx.FG(st.F).tupleDefs()[info.Uses[id]]; hasT && td.i == 0 {
						e = td.call
						tupleGuarded[fld] = true
					}
				}
			}
			if call, ok := unparen(e).(*ast.CallExpr); ok {
				if cf := callee(info, call); cf != nil && cf.Name() == "Lookup" {
					recv, _ := methodCall(info, call)
					good = strings.HasSuffix(exprStr(recv), "CardinalityLimit")
				}
			}
		case "ReservoirFunc":
			if call, ok := unparen(e).(*ast.CallExpr); ok {
				if cf := callee(info, call); cf != nil && cf.Name() == "reservoirFunc" {
					good = true
				}
			}
		}
		if st, ok := srcStmt[fld]; ok && good && helpers[mx.Outer(st.F)] {
			// inside the helper: the assignment lies on every path to the helper's return, or is skipped only when the look-up's
			// own ok result is false (the value is the zero value then)
			g := mx.FG(st.F)
			x := g.NodeOf(st.N)
			seen, _ := g.ReachFromEntry(func(y *GNode) bool { return y == x }, func(ed *GEdge) bool {
				if !tupleGuarded[fld] || ed.Cond == nil || ed.Pol > 0 {
					return false
				}
				_, isB := objOf(info, ed.Cond).(*types.Var)
				return isB // the false edge of the comma-ok: nothing to store
			})
			if x == nil || seen[g.Exit] {
				c.Violation(rule, key, at(mx.M, e.Pos()), "Builder."+fld+" is set only on some paths of the helper that builds the Builder")
				continue
			}
		} else if st, ok := srcStmt[fld]; ok && good {
			// a separate assignment must be unconditional: it dominates the use of the builder (the aggregateFunc call)
			g := mx.FG(st.F)
			uses := g.Match(func(n ast.Node) bool {
				call, ok := n.(*ast.CallExpr)
				if !ok {
					return false
				}
				cf := callee(info, call)
				return cf != nil && cf.Name() == "aggregateFunc"
			})
			x := g.NodeOf(st.N)
			// … or is skipped only when the look-up's own ok result is false (the value is the zero value then), as in a helper
			seen, _ := g.ReachFromEntry(func(y *GNode) bool { return y == x }, func(ed *GEdge) bool {
				if !tupleGuarded[fld] || ed.Cond == nil || ed.Pol > 0 {
					return false
				}
				_, isB := objOf(info, ed.Cond).(*types.Var)
				return isB
			})
			for _, u := range uses {
				if x == nil || seen[u] {
					good = false
				}
			}
			if len(uses) == 0 || !good {
				c.Violation(rule, key, at(mx.M, e.Pos()), "Builder."+fld+" is set only on some paths before the aggregator is built")
				continue
			}
		}
		c.Check(good, rule, key, at(mx.M, e.Pos()), "← "+exprStr(e), "Builder."+fld+" is fed from "+exprStr(e)+", not from its configured source")
	}
}
