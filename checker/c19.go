package main

import (
	"go/ast"
	"go/constant"
	"go/token"
	"go/types"
	"sort"
	"strings"
)

const sdkResource = "go.opentelemetry.io/otel/sdk/resource"

func init() {
	register(&PropDoc{
		ID:         "C19",
		Modules:    []string{"sdk"},
		NotDecided: "associativity/idempotence as algebra (they follow from the attribute set semantics of C05, itself only partly decided); percent-decoding of OTEL_RESOURCE_ATTRIBUTES itself (net/url; decided: the stored value is the decoder's output unchanged); equal map identities beyond delegation to attribute.Set.",
		Fn:         c19,
	})
}

func c19(c *Ctx) {
	rx := c.Index("sdk", sdkResource)
	if rx == nil {
		return
	}
	info := rx.Pkg.TypesInfo

	merge := c.Fn(rx, "R1", "Merge")
	if merge == nil {
		return
	}
	sig := merge.Obj.Type().(*types.Signature)
	pa, pb := sig.Params().At(0), sig.Params().At(1)
	fURL := lookupField(rx.Pkg, "Resource", "schemaURL")
	g := rx.FG(merge)

	c.Rule("R1", "E4 argument roles + E2 nil table", "Merge(a, b): the merge iterator is built with b's set first (first-wins ⇒ b wins); nil operands: (nil,nil) ↦ Empty(), (nil,b) ↦ b, (a,nil) ↦ a", 5)
	{
		var first, second string
		inspectNoLit(merge.Body(), func(n ast.Node) bool {
			if call, ok := n.(*ast.CallExpr); ok && isCallTo(info, call, "go.opentelemetry.io/otel/attribute.NewMergeIterator") && len(call.Args) == 2 {
				first, second = exprStr(call.Args[0]), exprStr(call.Args[1])
			}
			return true
		})
		// alternative form of the same union: all of a's attributes followed by all of b's, handed to the set constructor, which
		// keeps the last value per key (slices.Concat(a.Attributes(), b.Attributes()) / append(a.Attributes(), b.Attributes()...))
		concatOK, concatSeen := false, false
		isAttrsOf := func(e ast.Expr, p *types.Var) bool {
			call, ok := unparen(e).(*ast.CallExpr)
			if !ok || !isCallTo(info, call, "(*"+sdkResource+".Resource).Attributes") {
				return false
			}
			recv, _ := methodCall(info, call)
			return recv != nil && sameVar(info, recv, p)
		}
		inspectNoLit(merge.Body(), func(n ast.Node) bool {
			call, ok := n.(*ast.CallExpr)
			if !ok {
				return true
			}
			if isCallTo(info, call, "slices.Concat") && len(call.Args) == 2 {
				concatSeen = true
				concatOK = isAttrsOf(call.Args[0], pa) && isAttrsOf(call.Args[1], pb)
			}
			if builtinName(info, call) == "append" && len(call.Args) == 2 && call.Ellipsis.IsValid() && isAttrsOf(call.Args[1], pa) || (builtinName(info, call) == "append" && len(call.Args) == 2 && call.Ellipsis.IsValid() && isAttrsOf(call.Args[1], pb) && isAttrsOf(call.Args[0], pa)) {
				if isAttrsOf(call.Args[0], pa) && isAttrsOf(call.Args[1], pb) {
					concatSeen, concatOK = true, true
				}
			}
			return true
		})
		if first == "" && concatSeen {
			c.Check(concatOK, "R1", "sdk/resource|Merge|NewMergeIterator(b.Set(), a.Set())", at(rx.M, merge.Pos()), "a's attributes then b's, last value per key kept by the set constructor: b's value wins on shared keys", "the attributes are concatenated b first: on shared keys a's value wins — the update direction of Merge is inverted")
			c.Check(concatOK, "R1", "sdk/resource|Merge|every merged attribute is collected", at(rx.M, merge.Pos()), "whole lists concatenated", "attributes can be skipped while combining: the union loses keys")
		} else {
			c.Check(first == pb.Name()+".Set()" && second == pa.Name()+".Set()", "R1", "sdk/resource|Merge|NewMergeIterator(b.Set(), a.Set())", at(rx.M, merge.Pos()), "b's value wins on shared keys", "merge iterator built as ("+first+", "+second+"): on shared keys a's value wins — the update direction of Merge is inverted")
			// the iterator is drained completely into combine
			apps := g.Match(func(n ast.Node) bool {
				as, ok := n.(*ast.AssignStmt)
				return ok && len(as.Rhs) == 1 && isAppendTo(info, as.Rhs[0], func(ast.Expr) bool { return true }) && strings.Contains(exprStr(as.Rhs[0]), ".Attribute()")
			})
			okDrain := len(apps) == 1
			if okDrain {
				okDrain, _ = totalFanout(g, apps[0])
			}
			c.Check(okDrain, "R1", "sdk/resource|Merge|every merged attribute is collected", at(rx.M, merge.Pos()), "total loop over the merge iterator", "attributes can be skipped while combining: the union loses keys")
		}
		for _, row := range []struct {
			aNil, bNil bool
			want       string
		}{{true, true, "Empty()"}, {true, false, pb.Name()}, {false, true, pa.Name()}} {
			env := func(e ast.Expr) (constant.Value, bool) {
				if be, ok := e.(*ast.BinaryExpr); ok && (be.Op == token.EQL || be.Op == token.NEQ) && isNilIdent(info, be.Y) {
					if sameVar(info, be.X, pa) {
						return constant.MakeBool((be.Op == token.EQL) == row.aNil), true
					}
					if sameVar(info, be.X, pb) {
						return constant.MakeBool((be.Op == token.EQL) == row.bNil), true
					}
				}
				return nil, false
			}
			// first reachable return on the path: reachability stops at returns, so collect all reachable returns and require a unique one
			seen, _ := g.ReachFromEntry(func(x *GNode) bool { return false }, func(e *GEdge) bool { return !edgeOpen(info, e, g.withLocals(env)) })
			var rets []string
			for x := range seen {
				if rs, ok := x.N.(*ast.ReturnStmt); ok && len(rs.Results) == 2 {
					// only returns whose guarding conditions are all decided: take the earliest by position
					rets = append(rets, itoa(int(rs.Pos()))+":"+exprStr(rs.Results[0])+"/"+exprStr(rs.Results[1]))
				}
			}
			sort.Slice(rets, func(i, j int) bool {
				a, _ := splitNum(rets[i])
				b, _ := splitNum(rets[j])
				return a < b
			})
			got := ""
			if len(rets) > 0 {
				_, got = splitNum(rets[0])
			}
			c.Check(got == row.want+"/nil", "R1", "sdk/resource|Merge|a nil="+boolStr(row.aNil)+" b nil="+boolStr(row.bNil), at(rx.M, merge.Pos()), "→ "+got, "nil operand handling changed: returns "+got+", expected "+row.want+" (merging with nil must be the identity)")
		}
	}

	var combineVar types.Object
	inspectNoLit(merge.Body(), func(n ast.Node) bool {
		if as, ok := n.(*ast.AssignStmt); ok && len(as.Lhs) == 1 && len(as.Rhs) == 1 && strings.Contains(exprStr(as.Rhs[0]), ".Attribute()") {
			if call, ok := unparen(as.Rhs[0]).(*ast.CallExpr); ok && builtinName(info, call) == "append" {
				combineVar = objOf(info, as.Lhs[0])
			}
		}
		// the union built by concatenation (judged in R1): combine := slices.Concat(a.Attributes(), b.Attributes())
		if as, ok := n.(*ast.AssignStmt); ok && len(as.Lhs) == 1 && len(as.Rhs) == 1 && combineVar == nil {
			if call, ok := unparen(as.Rhs[0]).(*ast.CallExpr); ok && isCallTo(info, call, "slices.Concat") && len(call.Args) == 2 {
				combineVar = objOf(info, as.Lhs[0])
			}
		}
		return true
	})
	c.Rule("R2", "E2 decision table", "schema URL: a empty ↦ b's; b empty ↦ a's; equal ↦ that one; different ↦ schemaless result and an error wrapping ErrSchemaURLConflict; every arm carries the full merged attribute list", 4)
	{
		for _, row := range []struct {
			a, b string
			want string
			err  bool
		}{{"", "y", pb.Name() + ".schemaURL", false}, {"x", "", pa.Name() + ".schemaURL", false}, {"x", "x", "same", false}, {"x", "y", "schemaless", true}} {
			env := func(e ast.Expr) (constant.Value, bool) {
				if isField(info, e, fURL) {
					_, base := fieldOf(info, e)
					if sameVar(info, base, pa) {
						return constant.MakeString(row.a), true
					}
					if sameVar(info, base, pb) {
						return constant.MakeString(row.b), true
					}
				}
				if be, ok := e.(*ast.BinaryExpr); ok && (be.Op == token.EQL || be.Op == token.NEQ) && isNilIdent(info, be.Y) {
					if sameVar(info, be.X, pa) || sameVar(info, be.X, pb) {
						return constant.MakeBool(be.Op == token.NEQ), true
					}
				}
				return nil, false
			}
			seen := g.ReachUnder(env)
			var got []string
			full := true
			for x := range seen {
				rs, ok := x.N.(*ast.ReturnStmt)
				if !ok || len(rs.Results) != 2 {
					continue
				}
				call, ok := unparen(rs.Results[0]).(*ast.CallExpr)
				if !ok {
					got = append(got, "?"+exprStr(rs.Results[0]))
					continue
				}
				cf := callee(info, call)
				d := "?"
				if cf != nil && cf.Name() == "NewWithAttributes" && len(call.Args) == 2 {
					d = exprStr(call.Args[0])
					// judged by value: the schema URL argument folds, under the row's facts, to a's or b's URL (a variable assigned on
					// several paths is resolved to the assignment that reaches this return)
					v, known := evalConst(info, call.Args[0], g.withLocals(env))
					if !known {
						v, known = evalConst(info, g.ResolveUnder(env, seen, call.Args[0], x), g.withLocals(env))
					}
					if known && v.Kind() == constant.String {
						switch constant.StringVal(v) {
						case row.a:
							d = pa.Name() + ".schemaURL"
							if row.a == row.b && row.want != "same" {
								d = "=" + quote(row.a)
							}
						case row.b:
							d = pb.Name() + ".schemaURL"
						default:
							d = "=" + quote(constant.StringVal(v))
						}
					}
				}
				if cf != nil && cf.Name() == "NewSchemaless" {
					d = "schemaless"
				}
				if !call.Ellipsis.IsValid() || combineVar == nil || !sameVar(info, call.Args[len(call.Args)-1], combineVar) {
					full = false
				}
				errRes := g.ResolveUnder(env, seen, rs.Results[1], x)
				hasErr := !isNilIdent(info, errRes)
				if v, isV := objOf(info, errRes).(*types.Var); isV && hasErr {
					// `var err error` never assigned on this path: nil
					assigned := false
					for y := range seen {
						if as, isAs := y.N.(*ast.AssignStmt); isAs {
							for _, l := range as.Lhs {
								if objOf(info, l) == types.Object(v) {
									assigned = true
								}
							}
						}
					}
					if !assigned {
						hasErr = false
					}
				}
				if hasErr && d == "="+quote("") {
					// an empty schema URL together with the error is the schemaless result
					d = "schemaless"
				}
				if hasErr {
					d += "+err"
					if !strings.Contains(exprStr(errRes), "ErrSchemaURLConflict") {
						ec, isCall := unparen(errRes).(*ast.CallExpr)
						okWrap := false
						if isCall {
							for _, a := range ec.Args {
								if strings.Contains(exprStr(a), "ErrSchemaURLConflict") {
									okWrap = true
								}
							}
						}
						if !okWrap {
							d += "(not the conflict error)"
						}
					}
				}
				got = append(got, d)
			}
			sort.Strings(got)
			want := row.want
			if row.want == "same" {
				want = pa.Name() + ".schemaURL"
			}
			if row.err {
				want += "+err"
			}
			okk := len(got) == 1 && (got[0] == want || (row.want == "same" && got[0] == pb.Name()+".schemaURL")) && full
			c.Check(okk, "R2", "sdk/resource|Merge|schema a="+quote(row.a)+" b="+quote(row.b), at(rx.M, merge.Pos()), "→ "+strings.Join(got, ","),
				"schema URL handling: with a="+quote(row.a)+" b="+quote(row.b)+" Merge returns "+strings.Join(got, ",")+" (full attribute list: "+boolStr(full)+"), specified "+want)
		}
	}

	c.Rule("R3", "E4 argument roles + E3", "precedence: OTEL_SERVICE_NAME resource and each detector's result are the second Merge operand; only non-partial detector errors skip the merge; NewSchemaless keeps valid keys only", 5)
	if fn := c.Fn(rx, "R3", "fromEnv.Detect"); fn != nil {
		// res = NewSchemaless(semconv.ServiceName(svcName)); Merge(r2, res)
		var svc, attrs types.Object
		inspectNoLit(fn.Body(), func(n ast.Node) bool {
			as, ok := n.(*ast.AssignStmt)
			if !ok || len(as.Rhs) != 1 {
				return true
			}
			call, ok := unparen(as.Rhs[0]).(*ast.CallExpr)
			if !ok {
				return true
			}
			cf := callee(info, call)
			if cf == nil {
				return true
			}
			if cf.Name() == "NewSchemaless" && strings.Contains(exprStr(call), "ServiceName") {
				svc = objOf(info, as.Lhs[0])
			}
			if parser := rx.Func("constructOTResources"); parser != nil && callToDecl(info, parser)(call) {
				attrs = objOf(info, as.Lhs[0])
			}
			return true
		})
		good := false
		inspectNoLit(fn.Body(), func(n ast.Node) bool {
			if call, ok := n.(*ast.CallExpr); ok && callToDecl(info, merge)(call) && len(call.Args) == 2 {
				good = svc != nil && attrs != nil && sameVar(info, call.Args[0], attrs) && sameVar(info, call.Args[1], svc)
			}
			return true
		})
		c.Check(good, "R3", "sdk/resource|fromEnv.Detect|Merge(OTEL_RESOURCE_ATTRIBUTES, OTEL_SERVICE_NAME)", at(rx.M, fn.Pos()), "the service name variable wins over service.name in the attribute list", "OTEL_SERVICE_NAME no longer takes precedence over OTEL_RESOURCE_ATTRIBUTES")
	}
	if fn := c.Fn(rx, "R3", "detect"); fn != nil {
		dg := rx.FG(fn)
		res := fn.Obj.Type().(*types.Signature).Params().At(1)
		var detected, detErr types.Object
		var detectStmt ast.Node
		inspectNoLit(fn.Body(), func(n ast.Node) bool {
			if as, ok := n.(*ast.AssignStmt); ok && len(as.Rhs) == 1 && len(as.Lhs) == 2 {
				if call, ok := unparen(as.Rhs[0]).(*ast.CallExpr); ok && isCallTo(info, call, "("+sdkResource+".Detector).Detect") {
					detected = objOf(info, as.Lhs[0])
					detErr = objOf(info, as.Lhs[1])
					detectStmt = as
				}
			}
			return true
		})
		merges := dg.Match(callToDecl(info, merge))
		good := len(merges) == 1 && detected != nil
		if good {
			inspectNoLit(merges[0].N, func(n ast.Node) bool {
				if call, ok := n.(*ast.CallExpr); ok && callToDecl(info, merge)(call) {
					acc := ast.Expr(call.Args[0])
					// the accumulated resource may be kept in a small local struct initialised with the parameter (d.res)
					if fd, _ := dg.FieldDef(acc); fd != nil {
						acc = fd
					}
					good = sameVar(info, acc, res) && sameVar(info, call.Args[1], detected)
				}
				return true
			})
		}
		c.Check(good, "R3", "sdk/resource|detect|Merge(accumulated, detector result)", at(rx.M, fn.Pos()), "later detectors win", "detector precedence inverted: earlier detectors override later ones")
		// the merge is skipped only for nil detectors and non-partial errors (negative form)
		if len(merges) == 1 {
			var body *GNode
			for b, h := range dg.head {
				if b.Kind.String() == "RangeBody" {
					body = h
				}
			}
			okSkip := body != nil
			// Merge(a, nil) with a non-nil a is a itself (and no error): skipping the merge of a nil result changes nothing.
			// Read off Merge: under a != nil, b == nil every return reached is `return a, nil`.
			mergeNilIdentity := false
			if msig := merge.Obj.Type().(*types.Signature); msig.Params().Len() == 2 {
				pa, pb := msig.Params().At(0), msig.Params().At(1)
				mg := rx.FG(merge)
				seenM := mg.ReachUnder(func(e ast.Expr) (constant.Value, bool) {
					if be, ok := e.(*ast.BinaryExpr); ok && (be.Op == token.EQL || be.Op == token.NEQ) {
						var side ast.Expr
						if id, isID := unparen(be.Y).(*ast.Ident); isID && id.Name == "nil" {
							side = be.X
						} else if id, isID := unparen(be.X).(*ast.Ident); isID && id.Name == "nil" {
							side = be.Y
						}
						if side != nil {
							if sameVar(info, side, pa) {
								return constant.MakeBool(be.Op == token.NEQ), true
							}
							if sameVar(info, side, pb) {
								return constant.MakeBool(be.Op == token.EQL), true
							}
						}
					}
					return nil, false
				})
				nret := 0
				mergeNilIdentity = true
				for x := range seenM {
					if rs, ok := x.N.(*ast.ReturnStmt); ok {
						nret++
						if len(rs.Results) != 2 || !sameVar(info, rs.Results[0], pa) {
							mergeNilIdentity = false
						} else if id, isID := unparen(rs.Results[1]).(*ast.Ident); !isID || id.Name != "nil" {
							mergeNilIdentity = false
						}
					}
				}
				mergeNilIdentity = mergeNilIdentity && nret >= 1
			}
			if okSkip {
				seen, _ := dg.Reach([]*GNode{body}, func(y *GNode) bool { return y == merges[0] }, func(e *GEdge) bool {
					return dg.edgeImpliesDeep(e, func(cnd ast.Expr, pol int) bool {
						// the detector's result is nil (nothing to merge)
						if mergeNilIdentity && detected != nil {
							if nn, ok := nilCmp(info, cnd, pol, func(x ast.Expr) bool { return sameVar(info, x, detected) }); ok && !nn {
								return true
							}
						}
						// detector == nil
						if nn, ok := nilCmp(info, cnd, pol, func(x ast.Expr) bool {
							tv, has := info.Types[x]
							return has && typeIs(tv.Type, sdkResource, "Detector")
						}); ok && !nn {
							return true
						}
						// !errors.Is(e, ErrPartialResource)
						if call, ok := cnd.(*ast.CallExpr); ok && pol < 0 && isCallTo(info, call, "errors.Is") && strings.Contains(exprStr(call), "ErrPartialResource") {
							return true
						}
						return false
					})
				})
				for y := range seen {
					if y == dg.Exit || (y.N == nil && y.Blk != nil && y.Blk.Kind.String() == "RangeLoop") {
						okSkip = false
					}
				}
			}
			c.Check(okSkip, "R3", "sdk/resource|detect|merge skipped only for nil detectors and non-partial errors", at(rx.M, fn.Pos()), "partial results are kept", "a detector's (partial) result can be dropped although it should be merged")
		}
		// a detector that failed with a non-partial error contributes nothing: from the Detect call the merge is reached only
		// across an edge that implies "this detector's error is nil" or "this detector's error is ErrPartialResource"
		if len(merges) == 1 && detErr != nil && detectStmt != nil {
			start := dg.NodeOf(detectStmt)
			isDetErr := func(x ast.Expr) bool { return sameVar(info, x, detErr) }
			okFail := start != nil
			if okFail {
				seen, _ := dg.Reach([]*GNode{start}, nil, func(e *GEdge) bool {
					return dg.edgeImpliesDeep(e, func(cnd ast.Expr, pol int) bool {
						if nn, ok := nilCmp(info, cnd, pol, isDetErr); ok && !nn {
							return true
						}
						if call, ok := cnd.(*ast.CallExpr); ok && pol > 0 && isCallTo(info, call, "errors.Is") && len(call.Args) == 2 && isDetErr(call.Args[0]) && strings.Contains(exprStr(call.Args[1]), "ErrPartialResource") {
							return true
						}
						return false
					})
				})
				okFail = !seen[merges[0]]
			}
			c.Check(okFail, "R3", "sdk/resource|detect|a non-partial failure of a detector keeps its resource out of the merge", at(rx.M, fn.Pos()), "merge reached only with this detector's error nil or partial", "a detector that failed (non-partial error, judged on this detector's own error) still has its resource merged and overrides earlier detectors")
		}
		// errors joined
		joined := 0
		inspectNoLit(fn.Body(), func(n ast.Node) bool {
			if call, ok := n.(*ast.CallExpr); ok && isCallTo(info, call, "errors.Join") {
				joined++
			}
			return true
		})
		c.Check(joined >= 2, "R3", "sdk/resource|detect|detector and merge errors are joined", at(rx.M, fn.Pos()), itoa(joined)+" errors.Join sites", "detector or merge errors are overwritten instead of joined")
	}
	if fn := c.Fn(rx, "R3", "NewSchemaless"); fn != nil {
		good := false
		const validM = "(go.opentelemetry.io/otel/attribute.KeyValue).Valid"
		// the filter handed to the set constructor is KeyValue.Valid itself (method expression) or a function whose every
		// result is a conjunction containing kv.Valid()
		filterOK := func(body *ast.BlockStmt) bool {
			ok, n := true, 0
			inspectNoLit(body, func(nd ast.Node) bool {
				if rs, isR := nd.(*ast.ReturnStmt); isR && len(rs.Results) == 1 {
					n++
					has := false
					for _, cj := range conjuncts(rs.Results[0]) {
						if call, isC := unparen(cj).(*ast.CallExpr); isC && isCallTo(info, call, validM) {
							has = true
						}
					}
					if !has {
						ok = false
					}
				}
				return true
			})
			return ok && n > 0
		}
		inspectNoLit(fn.Body(), func(n ast.Node) bool {
			call, isC := n.(*ast.CallExpr)
			if !isC || !isCallTo(info, call, "go.opentelemetry.io/otel/attribute.NewSetWithFiltered") || len(call.Args) != 2 {
				return true
			}
			switch a := unparen(call.Args[1]).(type) {
			case *ast.FuncLit:
				good = filterOK(a.Body)
			case *ast.SelectorExpr:
				if sel := info.Selections[a]; sel != nil && sel.Kind() == types.MethodExpr && sel.Obj().(*types.Func).FullName() == validM {
					good = true
				} else if f, isF := objOf(info, a).(*types.Func); isF {
					if d := declOf(f); d != nil && d.Body() != nil {
						good = filterOK(d.Body())
					}
				}
			case *ast.Ident:
				if f, isF := objOf(info, a).(*types.Func); isF {
					if d := declOf(f); d != nil && d.Body() != nil {
						good = filterOK(d.Body())
					}
				} else if v, isV := objOf(info, a).(*types.Var); isV {
					if def := localFuncLit(fn.Body(), info, v); def != nil {
						good = filterOK(def.Body)
					}
				}
			}
			return true
		})
		c.Check(good, "R3", "sdk/resource|NewSchemaless|filter keeps kv.Valid() only", at(rx.M, fn.Pos()), "invalid keys never enter a resource", "resources can hold attributes with empty keys / invalid values")
	}

	c.Rule("R5", "E4 provenance", "OTEL_RESOURCE_ATTRIBUTES: the stored value is the percent-decoder's output (or the raw text when decoding fails) with nothing applied after decoding; pairs without '=' are not stored", 4)
	ruleEnvParser(c, rx, "R5")

	// R6 a schema-URL conflict among detectors leaves the resource without a schema URL, on every route that runs detectors
	c.Rule("R6", "E2 reachability under the error fact", "every function that runs detectors (Detect, New, through detect) hands back a resource whose schema URL has been emptied when the joined error is an ErrSchemaURLConflict: the reset is on every path of detect itself, or of each caller after the call", 2)
	if det := c.Fn(rx, "R6", "detect"); det != nil {
		fSchema := lookupField(rx.Pkg, "Resource", "schemaURL")
		env := func(e ast.Expr) (constant.Value, bool) {
			switch x := unparen(e).(type) {
			case *ast.CallExpr:
				if isCallTo(info, x, "errors.Is") && len(x.Args) == 2 {
					if v, ok := pkgVarOf(info, x.Args[1]); ok && v.Name() == "ErrSchemaURLConflict" {
						return constant.MakeBool(true), true
					}
				}
			case *ast.BinaryExpr:
				if (x.Op == token.NEQ || x.Op == token.EQL) && isNilIdent(info, x.Y) {
					// an error-typed variable or field (the joined error may live in a struct)
					if tv, ok := info.Types[x.X]; ok && tv.Type != nil && types.Identical(tv.Type, types.Universe.Lookup("error").Type()) {
						return constant.MakeBool(x.Op == token.NEQ), true
					}
				}
			}
			return nil, false
		}
		isClear := func(n ast.Node) bool {
			as, ok := n.(*ast.AssignStmt)
			if !ok || len(as.Lhs) != len(as.Rhs) {
				return false
			}
			for i, l := range as.Lhs {
				if fv, _ := fieldOf(info, l); fv != nil && fSchema != nil && fv.Origin() == fSchema.Origin() {
					if tv, ok := info.Types[as.Rhs[i]]; ok && tv.Value != nil && tv.Value.Kind() == constant.String && constant.StringVal(tv.Value) == "" {
						return true
					}
				}
			}
			return false
		}
		// clearsFrom: under the conflict facts no path from the start vertices reaches the exit without the reset
		clearsFrom := func(f *FuncInfo, starts []*GNode) (bool, string) {
			g := rx.FG(f)
			clears := toSet(g.Match(isClear))
			envL := g.withLocals(env)
			seen, parent := g.Reach(starts, func(x *GNode) bool { return clears[x] }, func(e *GEdge) bool { return !edgeOpen(info, e, envL) })
			for _, st := range starts {
				if clears[st] {
					return true, ""
				}
			}
			if seen[g.Exit] {
				return false, g.pathLines(parent, g.Exit)
			}
			return true, ""
		}
		dg := rx.FG(det)
		// inside detect: from the last point where err can become a conflict (every Merge call) to the exit
		var merges []*GNode
		for _, x := range dg.Nodes {
			if x.N == nil {
				continue
			}
			hit := false
			inspectNoLit(x.N, func(n ast.Node) bool {
				if call, ok := n.(*ast.CallExpr); ok && callToDecl(info, merge)(call) {
					hit = true
				}
				return true
			})
			if hit {
				merges = append(merges, x)
			}
		}
		inDetect := false
		if len(merges) > 0 {
			inDetect, _ = clearsFrom(det, merges)
		}
		callers := rx.FindCalls(func(f *FuncInfo, call *ast.CallExpr) bool { return callToDecl(info, det)(call) })
		if len(callers) == 0 {
			c.Violation("R6", "sdk/resource|detect|callers", at(rx.M, det.Pos()), "detect has no caller: the analysis no longer sees how detectors are run")
		}
		for _, cs := range callers {
			outer := rx.Outer(cs.F)
			key := "sdk/resource|" + outer.Name + "|schema URL emptied on ErrSchemaURLConflict from the detectors"
			if inDetect {
				c.OK("R6", key, rx.at(cs), "detect resets the schema URL on every conflict path before it returns")
				continue
			}
			g := rx.FG(cs.F)
			nd := g.NodeOf(cs.N)
			ok, why := false, "call vertex not found"
			if nd != nil {
				ok, why = clearsFrom(cs.F, []*GNode{nd})
			}
			c.Check(ok, "R6", key, rx.at(cs), "the caller resets the schema URL after detect reported the conflict",
				"detectors with conflicting schema URLs yield ErrSchemaURLConflict together with a resource that still carries a schema URL (that of the last merge): "+why)
		}
	}

	c.Rule("R4", "E4 delegation", "Equal and Equivalent delegate to the attribute set's identity", 2)
	if fn := c.Fn(rx, "R4", "(*Resource).Equivalent"); fn != nil {
		good := false
		inspectNoLit(fn.Body(), func(n ast.Node) bool {
			if rs, ok := n.(*ast.ReturnStmt); ok && len(rs.Results) == 1 && strings.HasSuffix(exprStr(rs.Results[0]), ".Equivalent()") {
				good = true
			}
			return true
		})
		c.Check(good, "R4", "sdk/resource|(*Resource).Equivalent|← Set().Equivalent()", at(rx.M, fn.Pos()), "map identity is the attribute set's", "resource identity no longer derives from the attribute set")
	}
	if fn := c.Fn(rx, "R4", "(*Resource).Equal"); fn != nil {
		src, good, nret := "", true, 0
		params := fn.ParamObjs(info)
		// which of the two resources (receiver, argument) an expression is derived from
		side := func(e ast.Expr) types.Object {
			var got types.Object
			ast.Inspect(e, func(n ast.Node) bool {
				if id, isID := n.(*ast.Ident); isID {
					for _, p := range params {
						if info.Uses[id] == p {
							got = p
						}
					}
				}
				return true
			})
			return got
		}
		identityOf := func(e ast.Expr) types.Object {
			if call, isC := unparen(e).(*ast.CallExpr); isC && len(call.Args) == 0 {
				if se, isS := call.Fun.(*ast.SelectorExpr); isS && se.Sel.Name == "Equivalent" {
					return side(se.X)
				}
			}
			return nil
		}
		inspectNoLit(fn.Body(), func(n ast.Node) bool {
			rs, isR := n.(*ast.ReturnStmt)
			if !isR || len(rs.Results) != 1 {
				return true
			}
			nret++
			src = exprStr(rs.Results[0])
			okRet := false
			switch e := unparen(rs.Results[0]).(type) {
			case *ast.BinaryExpr:
				if e.Op == token.EQL {
					l, r := identityOf(e.X), identityOf(e.Y)
					okRet = l != nil && r != nil && l != r
				}
			case *ast.CallExpr:
				// a.Set().Equals(b.Set()): the attribute set's own identity comparison
				if isCallTo(info, e, "(*go.opentelemetry.io/otel/attribute.Set).Equals") && len(e.Args) == 1 {
					if se, isS := e.Fun.(*ast.SelectorExpr); isS {
						l, r := side(se.X), side(e.Args[0])
						isSet := func(x ast.Expr) bool {
							call, isC := unparen(x).(*ast.CallExpr)
							return isC && isCallTo(info, call, "(*go.opentelemetry.io/otel/sdk/resource.Resource).Set")
						}
						okRet = l != nil && r != nil && l != r && isSet(se.X) && isSet(e.Args[0])
					}
				}
			}
			if !okRet {
				good = false
			}
			return true
		})
		c.Check(good && nret > 0, "R4", "sdk/resource|(*Resource).Equal|compares Equivalent() of both sides", at(rx.M, fn.Pos()), src, "Equal no longer compares canonical identities")
	}
}

// ruleEnvParser: structural necessary conditions of "OTEL_RESOURCE_ATTRIBUTES values decode percent-escapes losslessly":
// the value stored for a pair is exactly the output of url.PathUnescape (or the raw text when decoding fails), nothing is
// applied to it after decoding; the pair is cut at its first "="; pairs without "=" are reported and not stored.
func ruleEnvParser(c *Ctx, rx *PkgIndex, rule string) {
	info := rx.Pkg.TypesInfo
	fn := c.Fn(rx, rule, "constructOTResources")
	if fn == nil {
		return
	}
	var val, raw types.Object
	var unesc *ast.CallExpr
	inspectNoLit(fn.Body(), func(n ast.Node) bool {
		as, ok := n.(*ast.AssignStmt)
		if !ok || len(as.Rhs) != 1 {
			return true
		}
		call, ok := unparen(as.Rhs[0]).(*ast.CallExpr)
		if ok && isCallTo(info, call, "net/url.PathUnescape") && len(as.Lhs) == 2 && len(call.Args) == 1 {
			val = objOf(info, as.Lhs[0])
			unesc = call
		}
		return true
	})
	if val == nil || unesc == nil {
		c.Undecided(rule, "sdk/resource|constructOTResources|value = PathUnescape(trimmed text)", at(rx.M, fn.Pos()), "decoder call not found")
		return
	}
	// decoder input: a local, at most trimmed of literal surrounding white space
	in := unparen(unesc.Args[0])
	if call, ok := in.(*ast.CallExpr); ok && isCallTo(info, call, "strings.TrimSpace") && len(call.Args) == 1 {
		raw = objOf(info, call.Args[0])
	} else {
		raw = objOf(info, in)
	}
	// … which is the text after the pair's first "=": second result of strings.Cut(pair, "="), or pair[i+1:] with
	// i := strings.Index/IndexByte(pair, "=")
	okIn := false
	found := map[types.Object]bool{}  // "an '=' was found" flags (Cut's third result)
	sepIdx := map[types.Object]bool{} // index of the first '=' (−1 when there is none)
	isEq := func(e ast.Expr) bool {
		if s, ok := constString(info, e); ok && s == "=" {
			return true
		}
		if tv := info.Types[e]; tv.Value != nil && tv.Value.Kind() == constant.Int {
			v, _ := constant.Int64Val(tv.Value)
			return v == '='
		}
		return false
	}
	inspectNoLit(fn.Body(), func(n ast.Node) bool {
		as, ok := n.(*ast.AssignStmt)
		if !ok || len(as.Rhs) != 1 && len(as.Lhs) != len(as.Rhs) {
			return true
		}
		if len(as.Rhs) == 1 {
			if call, ok := unparen(as.Rhs[0]).(*ast.CallExpr); ok {
				switch {
				case isCallTo(info, call, "strings.Cut") && len(as.Lhs) == 3 && len(call.Args) == 2 && isEq(call.Args[1]):
					if raw != nil && objOf(info, as.Lhs[1]) == raw {
						okIn = true
					}
					if o := objOf(info, as.Lhs[2]); o != nil {
						found[o] = true
					}
				case (isCallTo(info, call, "strings.IndexByte") || isCallTo(info, call, "strings.Index") || isCallTo(info, call, "strings.IndexRune")) && len(as.Lhs) == 1 && len(call.Args) == 2 && isEq(call.Args[1]):
					if o := objOf(info, as.Lhs[0]); o != nil {
						sepIdx[o] = true
					}
				}
			}
		}
		return true
	})
	if raw != nil && !okIn {
		// raw := pair[i+1:] (possibly in a tuple assignment)
		inspectNoLit(fn.Body(), func(n ast.Node) bool {
			as, ok := n.(*ast.AssignStmt)
			if !ok || len(as.Lhs) != len(as.Rhs) {
				return true
			}
			for i, l := range as.Lhs {
				if objOf(info, l) != raw {
					continue
				}
				se, ok := unparen(as.Rhs[i]).(*ast.SliceExpr)
				if !ok || se.High != nil || se.Low == nil {
					continue
				}
				terms, k := linearForm(info, se.Low)
				if k == 1 && len(terms) == 1 {
					for o := range sepIdx {
						if terms[o.Name()] == 1 {
							okIn = true
						}
					}
				}
			}
			return true
		})
	}
	c.Check(okIn, rule, "sdk/resource|constructOTResources|decoder input is the pair's value text", at(rx.M, fn.Pos()), exprStr(in), "the percent-decoder no longer receives the text after the first '='")
	// every other definition of the decoded value is the raw text (fallback on a decoding error)
	okDefs, nDefs := true, 0
	inspectNoLit(fn.Body(), func(n ast.Node) bool {
		as, ok := n.(*ast.AssignStmt)
		if !ok {
			return true
		}
		for i, l := range as.Lhs {
			if !sameVar(info, l, val) {
				continue
			}
			nDefs++
			if len(as.Rhs) == 1 && unparen(as.Rhs[0]) == ast.Expr(unesc) {
				continue
			}
			if len(as.Rhs) == len(as.Lhs) && as.Tok == token.ASSIGN && sameVar(info, as.Rhs[i], raw) {
				continue
			}
			okDefs = false
		}
		return true
	})
	c.Check(okDefs && nDefs >= 1, rule, "sdk/resource|constructOTResources|decoded value defined only by the decoder or the raw text", at(rx.M, fn.Pos()), itoa(nDefs)+" definitions", "the decoded value is rewritten after decoding (escaped characters are altered or lost)")
	// the stored value is that variable itself, the stored key the trimmed key
	okStore, nStore := true, 0
	inspectNoLit(fn.Body(), func(n ast.Node) bool {
		call, ok := n.(*ast.CallExpr)
		if !ok || !isCallTo(info, call, otelPrefix+"/attribute.String") || len(call.Args) != 2 {
			return true
		}
		nStore++
		if !sameVar(info, call.Args[1], val) {
			// or a variable that only ever receives the decoder's output or the raw text (the result of a helper written out in place)
			w, nw := objOf(info, call.Args[1]), 0
			okW := w != nil
			inspectNoLit(fn.Body(), func(m ast.Node) bool {
				as, isAs := m.(*ast.AssignStmt)
				if !isAs {
					return true
				}
				for i, l := range as.Lhs {
					if w == nil || !sameVar(info, l, w) {
						continue
					}
					nw++
					if len(as.Lhs) != len(as.Rhs) || !(sameVar(info, as.Rhs[i], val) || sameVar(info, as.Rhs[i], raw)) {
						okW = false
					}
				}
				return true
			})
			if !okW || nw == 0 {
				okStore = false
			}
		}
		return true
	})
	c.Check(okStore && nStore == 1, rule, "sdk/resource|constructOTResources|stored value is the decoder's output unchanged", at(rx.M, fn.Pos()), "attribute.String(key, val)", "a transformation is applied to the value after percent-decoding: escaped characters (e.g. %20 at either end) are not preserved")
	// pairs without "=" are skipped: with every "an '=' was found" edge removed the store is unreachable
	if len(found)+len(sepIdx) > 0 {
		g := rx.FG(fn)
		stores := g.Match(func(n ast.Node) bool {
			call, ok := n.(*ast.CallExpr)
			return ok && isCallTo(info, call, otelPrefix+"/attribute.String")
		})
		okSkip := len(stores) == 1
		if okSkip {
			seen, _ := g.ReachFromEntry(nil, func(e *GEdge) bool {
				return edgeImplies(e, func(cnd ast.Expr, pol int) bool {
					if id, ok := cnd.(*ast.Ident); ok && pol > 0 && found[info.Uses[id]] {
						return true
					}
					// i >= 0, i != -1, i > -1 (and the negations of i < 0, i == -1)
					if l, op, r, ok := cmpNorm(cnd, pol); ok {
						if id, isID := l.(*ast.Ident); isID && sepIdx[info.Uses[id]] {
							if v, isC := constInt(info, r); isC {
								return (op == token.GEQ && v == 0) || (op == token.NEQ && v == -1) || (op == token.GTR && v == -1)
							}
						}
					}
					return false
				})
			})
			// with every "found" edge removed the store must be unreachable
			okSkip = !seen[stores[0]]
		}
		c.Check(okSkip, rule, "sdk/resource|constructOTResources|pairs without '=' are not stored", at(rx.M, fn.Pos()), "store dominated by found", "a pair without '=' produces an attribute")
	}
}

func splitNum(s string) (int, string) {
	i := strings.Index(s, ":")
	n := 0
	for _, ch := range s[:i] {
		n = n*10 + int(ch-'0')
	}
	return n, s[i+1:]
}

func quote(s string) string { return "\"" + s + "\"" }
