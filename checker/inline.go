package main

import (
	"go/ast"
	"go/constant"
	"go/printer"
	"go/token"
	"go/types"
	"os"
	"reflect"
	"sort"
	"sync"

	"golang.org/x/tools/go/packages"
)

// Normalisation by inlining (undoes "extract helper", "split into phases", "wrap the state in a small type with methods",
// "method ↔ function"): before a package is indexed, every call of a declared function of the same package that did NOT exist
// on the pinned tree (its name is not in the recorded list of that package's functions and it is not the renamed form of a
// recorded anchor) is replaced by the callee's body when that can be done exactly on the syntax tree:
//
//   - the callee has no defer, go, recover, label or goto, does not call itself, and never assigns its parameters;
//   - it has no return statement, or exactly one and that is its last statement;
//   - the call is a statement of its own, the single right-hand side of an assignment or definition (also as the init of an
//     if/switch), or the single operand of a return; or the callee's body is just `return expr` and every argument is simple —
//     then the call is replaced inside any expression;
//   - a method call is not promoted through an embedded field.
//
// Parameters are replaced by the argument expressions when those are simple (variables, selector paths, literals, &x, function
// literals) and the callee does not use the parameter inside a closure; otherwise the parameter's own object is bound by a
// definition `p := arg` in front of the body, which the single-definition folding of the evaluator sees through. The copied
// nodes get the type information of their originals (types.Info maps are extended), untouched sub-trees are shared.
//
// Functions of the pinned tree are never inlined, so on the unchanged tree this pass changes nothing.

var (
	normMu      sync.Mutex
	normDone    = map[*packages.Package]bool{}
	inlinedAway = map[*types.Func]bool{} // new helpers all of whose calls were expanded: dropped from the index
)

func resetNormalised() {
	normMu.Lock()
	normDone = map[*packages.Package]bool{}
	inlinedAway = map[*types.Func]bool{}
	normMu.Unlock()
}

func isInlinedAway(f *types.Func) bool {
	if f == nil {
		return false
	}
	normMu.Lock()
	defer normMu.Unlock()
	return inlinedAway[f]
}

func recordAllFuncs(p *packages.Package, fs map[string]*FuncInfo) {
	if os.Getenv("VERIF_RECORD_ANCHORS") == "" {
		return
	}
	var names []string
	for n := range fs {
		names = append(names, n)
	}
	sort.Strings(names)
	var vars []string
	for _, nm := range p.Types.Scope().Names() {
		if _, isV := p.Types.Scope().Lookup(nm).(*types.Var); isV {
			vars = append(vars, nm)
		}
	}
	recMu.Lock()
	if recorded.AllFuncs == nil {
		recorded.AllFuncs = map[string][]string{}
	}
	recorded.AllFuncs[p.PkgPath] = names
	if recorded.AllVars == nil {
		recorded.AllVars = map[string][]string{}
	}
	recorded.AllVars[p.PkgPath] = vars
	recMu.Unlock()
}

type inliner struct {
	m         *Module
	p         *packages.Package
	info      *types.Info
	decls     map[*types.Func]*ast.FuncDecl
	fresh     map[*types.Func]bool // declared functions that are new with respect to the pinned tree
	state     map[*types.Func]int  // 0 untouched, 1 in progress, 2 done
	count     int
	recvCache map[*ast.SelectorExpr]ast.Expr
	tailOnly  map[*ast.CallExpr]bool // callee has several returns: expandable only as the operand of a return
	asTail    bool
	litDone   map[*ast.FuncLit]bool
	litFuncs  map[*ast.FuncLit]*types.Func
	tables    map[*types.Var]*tableInfo
	freshVars map[*types.Var]bool
	curLHS    []ast.Expr // left-hand side of the assignment whose call is being expanded
	curTok    token.Token
}

// normalisePackage rewrites the bodies of p's function declarations in place (once per loaded package).
func normalisePackage(m *Module, p *packages.Package) int {
	normMu.Lock()
	if normDone[p] {
		normMu.Unlock()
		return 0
	}
	normDone[p] = true
	normMu.Unlock()
	if os.Getenv("VERIF_NO_INLINE") != "" {
		return 0
	}
	tab := loadAnchors()
	pinned, ok := tab.AllFuncs[p.PkgPath]
	if !ok {
		return 0
	}
	known := map[string]bool{}
	for _, n := range pinned {
		known[n] = true
	}
	fs := pkgFuncs(m, p)
	in := &inliner{m: m, p: p, info: p.TypesInfo, decls: map[*types.Func]*ast.FuncDecl{}, fresh: map[*types.Func]bool{}, state: map[*types.Func]int{}, tailOnly: map[*ast.CallExpr]bool{}, litDone: map[*ast.FuncLit]bool{}}
	anyFresh := false
	for n, f := range fs {
		if f.Obj == nil {
			continue
		}
		in.decls[f.Obj] = f.Decl
		if !known[n] {
			in.fresh[f.Obj] = true
			anyFresh = true
		}
	}
	// package-level variables that did not exist on the pinned tree (candidate dispatch tables, tables.go)
	pinnedVars := map[string]bool{}
	for _, n := range tab.AllVars[p.PkgPath] {
		pinnedVars[n] = true
	}
	in.freshVars = map[*types.Var]bool{}
	if _, recordedVars := tab.AllVars[p.PkgPath]; recordedVars {
		for _, nm := range p.Types.Scope().Names() {
			if v, isV := p.Types.Scope().Lookup(nm).(*types.Var); isV && !pinnedVars[nm] {
				in.freshVars[v] = true
			}
		}
	}
	if !anyFresh && len(in.freshVars) == 0 {
		return 0
	}
	// the renamed form of a recorded anchor is not a new function
	for key := range tab.Funcs {
		pre := p.PkgPath + "|"
		if len(key) > len(pre) && key[:len(pre)] == pre {
			name := key[len(pre):]
			if _, present := fs[name]; present {
				continue
			}
			if f := lookupFunc(m, p, name); f != nil && f.Obj != nil {
				delete(in.fresh, f.Obj)
			}
		}
	}
	if len(in.fresh) == 0 && len(in.freshVars) == 0 {
		return 0
	}
	// new tables of constants are made known to the evaluator whether or not a lookup statement is rewritten
	for v := range in.freshVars {
		in.tableOfVar(v)
	}
	var objs []*types.Func
	for o := range in.decls {
		objs = append(objs, o)
	}
	sort.Slice(objs, func(i, j int) bool { return objs[i].Pos() < objs[j].Pos() })
	for _, o := range objs {
		in.normalise(o)
	}
	// locals defined once by a lookup in a new table: v := T[k]
	for _, o := range objs {
		fd := in.decls[o]
		if fd == nil || fd.Body == nil {
			continue
		}
		ast.Inspect(fd.Body, func(n ast.Node) bool {
			as, ok := n.(*ast.AssignStmt)
			if !ok || as.Tok != token.DEFINE || len(as.Lhs) != 1 || len(as.Rhs) != 1 {
				return true
			}
			ie, isIE := unparen(as.Rhs[0]).(*ast.IndexExpr)
			if !isIE {
				return true
			}
			tv, isV := objOf(in.info, ie.X).(*types.Var)
			if !isV || !in.freshVars[tv] || in.tableOfVar(tv) == nil {
				return true
			}
			v := objOf(in.info, as.Lhs[0])
			if v == nil {
				return true
			}
			cnt := 0
			ast.Inspect(fd.Body, func(m ast.Node) bool {
				switch s := m.(type) {
				case *ast.AssignStmt:
					for _, l := range s.Lhs {
						if sameVar(in.info, l, v) {
							cnt++
						}
					}
				case *ast.UnaryExpr:
					if s.Op == token.AND && sameVar(in.info, s.X, v) {
						cnt += 2
					}
				case *ast.IncDecStmt:
					if sameVar(in.info, s.X, v) {
						cnt += 2
					}
				}
				return true
			})
			// the key must not change between the lookup and the uses: a parameter or local never assigned again
			stable := true
			ast.Inspect(ie.Index, func(m ast.Node) bool {
				if id, isID := m.(*ast.Ident); isID {
					if kv, isKV := in.info.Uses[id].(*types.Var); isKV && !kv.IsField() && assignedIn(in.info, fd.Body, kv) {
						stable = false
					}
				}
				return true
			})
			if cnt == 1 && stable {
				constTablesMu.Lock()
				tableLookupDefs[v] = as.Rhs[0]
				constTablesMu.Unlock()
			}
			return true
		})
	}
	// helpers every call of which was expanded are no longer part of the program the rules look at
	live := map[*types.Func]bool{}
	var work []*types.Func
	for _, o := range objs {
		if !in.fresh[o] {
			live[o] = true
			work = append(work, o)
		}
	}
	for len(work) > 0 {
		o := work[len(work)-1]
		work = work[:len(work)-1]
		fd := in.decls[o]
		if fd == nil || fd.Body == nil {
			continue
		}
		ast.Inspect(fd.Body, func(n ast.Node) bool {
			if id, ok := n.(*ast.Ident); ok {
				if f, isF := in.info.Uses[id].(*types.Func); isF {
					f = f.Origin()
					if _, declared := in.decls[f]; declared && !live[f] {
						live[f] = true
						work = append(work, f)
					}
				}
			}
			return true
		})
	}
	// package-level initialisers may reference helpers too
	for _, file := range p.Syntax {
		for _, d := range file.Decls {
			if gd, ok := d.(*ast.GenDecl); ok {
				ast.Inspect(gd, func(n ast.Node) bool {
					if id, ok := n.(*ast.Ident); ok {
						if f, isF := in.info.Uses[id].(*types.Func); isF {
							live[f.Origin()] = true
						}
					}
					return true
				})
			}
		}
	}
	normMu.Lock()
	for _, o := range objs {
		if in.fresh[o] && !live[o] && !o.Exported() {
			inlinedAway[o] = true
		}
	}
	normMu.Unlock()
	return in.count
}

func (in *inliner) normalise(o *types.Func) {
	if in.state[o] != 0 {
		return
	}
	in.state[o] = 1
	fd := in.decls[o]
	if fd != nil && fd.Body != nil {
		before := in.count
		fd.Body = in.block(fd.Body, o)
		if nb := in.wholeBody(fd.Body, fd.Type, o); nb != nil {
			fd.Body = in.block(nb, o)
		}
		if in.count > before {
			// a mode argument that arrived as a constant decides branches of the expanded body (if isDelta { … })
			fd.Body = in.pruneConst(fd.Body)
		}

		// function literals inside (per-request closures, goroutine bodies) are normalised in place, innermost last
		for round := 0; round < 3; round++ {
			var lits []*ast.FuncLit
			ast.Inspect(fd.Body, func(n ast.Node) bool {
				if l, ok := n.(*ast.FuncLit); ok && !in.litDone[l] {
					lits = append(lits, l)
				}
				return true
			})
			if len(lits) == 0 {
				break
			}
			for _, l := range lits {
				in.litDone[l] = true
				l.Body = in.block(l.Body, o)
				if nb := in.wholeBody(l.Body, l.Type, o); nb != nil {
					l.Body = in.pruneConst(in.block(nb, o))
				}
			}
		}
		if in.count > before {
			in.dropDeadDefs(fd.Body)
		}
		if d := os.Getenv("VERIF_DUMPNORM"); d != "" && d == fd.Name.Name {
			_ = printer.Fprint(os.Stderr, token.NewFileSet(), fd)
			os.Stderr.WriteString("\n")
		}
	}
	in.state[o] = 2
}

// inlinable returns the declaration of the callee of call when it may be expanded here.
func (in *inliner) inlinable(call *ast.CallExpr, within *types.Func) (*ast.FuncDecl, *types.Func) {
	if call.Ellipsis.IsValid() {
		return nil, nil
	}
	f := callee(in.info, call)
	if f == nil {
		// an immediately invoked function literal (typically a literal argument that replaced a function parameter)
		lit, isLit := unparen(call.Fun).(*ast.FuncLit)
		if !isLit {
			return nil, nil
		}
		if in.litFuncs == nil {
			in.litFuncs = map[*ast.FuncLit]*types.Func{}
		}
		lf := in.litFuncs[lit]
		if lf == nil {
			sig, isSig := in.info.TypeOf(lit).(*types.Signature)
			if !isSig {
				return nil, nil
			}
			if !in.litDone[lit] {
				in.litDone[lit] = true
				lit.Body = in.block(lit.Body, within)
			}
			lf = types.NewFunc(lit.Pos(), in.p.Types, "func·lit", sig)
			in.litFuncs[lit] = lf
			in.decls[lf] = &ast.FuncDecl{Name: &ast.Ident{Name: "func·lit", NamePos: lit.Pos()}, Type: lit.Type, Body: lit.Body}
			in.fresh[lf] = true
			in.state[lf] = 2
		}
		f = lf
	}
	f = f.Origin()
	if !in.fresh[f] || f == within {
		return nil, nil
	}
	fd := in.decls[f]
	if fd == nil || fd.Body == nil {
		return nil, nil
	}
	if in.state[f] == 1 {
		return nil, nil // recursion
	}
	in.normalise(f)
	sig := f.Type().(*types.Signature)
	if sig.Variadic() {
		return nil, nil
	}
	// promoted through an embedded field?
	if sig.Recv() != nil {
		sel, ok := unparen(call.Fun).(*ast.SelectorExpr)
		if !ok {
			return nil, nil
		}
		s := in.info.Selections[sel]
		if s == nil || s.Kind() != types.MethodVal {
			return nil, nil
		}
		if len(s.Index()) != 1 && in.explicitRecv(sel, s) == nil {
			return nil, nil
		}
	}
	if len(call.Args) != sig.Params().Len() {
		return nil, nil
	}
	if !in.simpleBody(fd, f, false) {
		if in.simpleBody(fd, f, true) {
			in.tailOnly[call] = true
			return fd, f
		}
		return nil, nil
	}
	delete(in.tailOnly, call)
	return fd, f
}

// simpleBody: no defer/go/recover/labels/goto/self call, parameters never assigned, at most one return and that one last.
func (in *inliner) simpleBody(fd *ast.FuncDecl, f *types.Func, anyReturns bool) bool {
	ok := true
	nret := 0
	sig := f.Type().(*types.Signature)
	params := map[types.Object]bool{}
	if r := sig.Recv(); r != nil {
		params[r] = true
	}
	for i := 0; i < sig.Params().Len(); i++ {
		params[sig.Params().At(i)] = true
	}
	movable := in.movableDefers(fd)
	ast.Inspect(fd.Body, func(n ast.Node) bool {
		switch x := n.(type) {
		case *ast.DeferStmt:
			// `defer g(v…)` at the top level of a single-exit body runs right after the body: it can be moved there
			if anyReturns || !movable[x] {
				ok = false
			}
		case *ast.GoStmt, *ast.LabeledStmt:
			ok = false
		case *ast.BranchStmt:
			if x.Tok == token.GOTO || x.Label != nil {
				ok = false
			}
		case *ast.FuncLit:
			// returns inside a literal are the literal's own
			ast.Inspect(x.Body, func(m ast.Node) bool {
				if c, isC := m.(*ast.CallExpr); isC && builtinName(in.info, c) == "recover" {
					ok = false
				}
				return true
			})
			return false
		case *ast.ReturnStmt:
			nret++
		case *ast.CallExpr:
			if builtinName(in.info, x) == "recover" {
				ok = false
			}
			if c := callee(in.info, x); c != nil && c.Origin() == f {
				ok = false
			}
		}
		return ok
	})
	if !ok {
		return false
	}
	if anyReturns {
		// (parameters the callee assigns are bound by p := arg in the multi-return expansions, never substituted)
		return true
	}
	if nret > 1 {
		return false
	}
	if nret == 1 {
		if len(fd.Body.List) == 0 {
			return false
		}
		if _, last := fd.Body.List[len(fd.Body.List)-1].(*ast.ReturnStmt); !last {
			return false
		}
	}
	// a function with results must end in its return
	if sig.Results().Len() > 0 && nret != 1 {
		return false
	}
	return true
}

// stableIn: would arg still denote the value it has at the call when it is evaluated anywhere inside body? Not if it reads a
// field that body assigns (through whatever base), or reads an element / dereferences while body stores into elements /
// through pointers.
func (in *inliner) stableIn(arg ast.Expr, body ast.Node) bool {
	fields := map[types.Object]bool{}
	elem, deref := false, false
	ast.Inspect(arg, func(n ast.Node) bool {
		switch x := n.(type) {
		case *ast.UnaryExpr:
			if x.Op == token.AND {
				// &a.b.c computes an address: only pointer-typed fields on the way are loaded
				cur := unparen(x.X)
				for {
					sel, isSel := cur.(*ast.SelectorExpr)
					if !isSel {
						break
					}
					inner := unparen(sel.X)
					if isel, isInnerSel := inner.(*ast.SelectorExpr); isInnerSel {
						if _, isPtr := in.info.TypeOf(isel).Underlying().(*types.Pointer); isPtr {
							if s := in.info.Selections[isel]; s != nil && s.Kind() == types.FieldVal {
								fields[s.Obj()] = true
							}
						}
					}
					cur = inner
				}
				if _, isID := cur.(*ast.Ident); isID {
					return false
				}
			}
		case *ast.SelectorExpr:
			if s := in.info.Selections[x]; s != nil && s.Kind() == types.FieldVal {
				fields[s.Obj()] = true
			}
		case *ast.IndexExpr:
			elem = true
		case *ast.StarExpr:
			deref = true
		case *ast.FuncLit:
			return false
		}
		return true
	})
	if len(fields) == 0 && !elem && !deref {
		return true
	}
	ok := true
	check := func(l ast.Expr) {
		switch x := unparen(l).(type) {
		case *ast.SelectorExpr:
			if s := in.info.Selections[x]; s != nil && s.Kind() == types.FieldVal && fields[s.Obj()] {
				ok = false
			}
		case *ast.IndexExpr:
			if elem {
				ok = false
			}
		case *ast.StarExpr:
			// a store through a pointer can only change what has the pointee's type
			if deref {
				ok = false
			}
			if t := in.info.TypeOf(x); t != nil {
				for f := range fields {
					if types.Identical(f.Type(), t) {
						ok = false
					}
				}
			}
		}
	}
	ast.Inspect(body, func(n ast.Node) bool {
		switch s := n.(type) {
		case *ast.AssignStmt:
			for _, l := range s.Lhs {
				check(l)
			}
		case *ast.IncDecStmt:
			check(s.X)
		case *ast.CallExpr:
			// a call inside the helper may write anything reachable: fields read by the argument are then not stable
			if len(fields) > 0 || elem || deref {
				if c := callee(in.info, s); c != nil && c.Pkg() == in.p.Types {
					if fd := in.decls[c.Origin()]; fd != nil && fd.Body != nil && fd.Body != body {
						ast.Inspect(fd.Body, func(m ast.Node) bool {
							switch t := m.(type) {
							case *ast.AssignStmt:
								for _, l := range t.Lhs {
									check(l)
								}
							case *ast.IncDecStmt:
								check(t.X)
							}
							return ok
						})
					}
				}
			}
		}
		return ok
	})
	return ok
}

// simpleArg: may be placed wherever the parameter was used without changing what is evaluated.
func (in *inliner) simpleArg(e ast.Expr) bool {
	switch x := unparen(e).(type) {
	case *ast.Ident, *ast.BasicLit, *ast.FuncLit:
		return true
	case *ast.SelectorExpr:
		return in.simpleArg(x.X)
	case *ast.StarExpr:
		return in.simpleArg(x.X)
	case *ast.UnaryExpr:
		return (x.Op == token.AND || x.Op == token.SUB || x.Op == token.NOT) && in.simpleArg(x.X)
	case *ast.IndexExpr:
		return in.simpleArg(x.X) && in.simpleArg(x.Index)
	case *ast.SliceExpr:
		for _, e := range []ast.Expr{x.Low, x.High, x.Max} {
			if e != nil && !in.simpleArg(e) {
				return false
			}
		}
		return in.simpleArg(x.X)
	case *ast.BinaryExpr:
		return in.simpleArg(x.X) && in.simpleArg(x.Y)
	case *ast.ParenExpr:
		return in.simpleArg(x.X)
	case *ast.CallExpr:
		// conversion of a simple expression
		if tv, ok := in.info.Types[x.Fun]; ok && tv.IsType() && len(x.Args) == 1 {
			return in.simpleArg(x.Args[0])
		}
	}
	return false
}

// expansion of one call: statements to put in front, and the result expressions
func (in *inliner) expand(call *ast.CallExpr, fd *ast.FuncDecl, f *types.Func, exprOnly bool) (pre []ast.Stmt, results []ast.Expr, ok bool) {
	sig := f.Type().(*types.Signature)
	tail := in.tailOnly[call]
	if tail && !in.asTail {
		return nil, nil, false
	}
	subst := map[types.Object]ast.Expr{}
	// parameters used inside a closure of the callee are bound, not substituted
	inClosure := map[types.Object]bool{}
	ast.Inspect(fd.Body, func(n ast.Node) bool {
		if lit, isLit := n.(*ast.FuncLit); isLit {
			ast.Inspect(lit.Body, func(m ast.Node) bool {
				if id, isID := m.(*ast.Ident); isID {
					if o := in.info.Uses[id]; o != nil {
						inClosure[o] = true
					}
				}
				return true
			})
			return false
		}
		return true
	})
	// in-out parameters: x = h(…, x, …) (or x := h(y)) where h updates its parameter p and returns it — p simply is x
	inout := map[*types.Var]types.Object{}
	inoutIdx := map[int]bool{}
	if in.curTok == token.DEFINE || in.curTok == token.ASSIGN {
		if n := len(fd.Body.List); n > 0 {
			if r, isRet := fd.Body.List[n-1].(*ast.ReturnStmt); isRet && len(r.Results) == len(in.curLHS) {
				for i, res := range r.Results {
					rid, isRID := unparen(res).(*ast.Ident)
					lid, isLID := in.curLHS[i].(*ast.Ident)
					if !isRID || !isLID || lid.Name == "_" {
						continue
					}
					p, isP := in.info.Uses[rid].(*types.Var)
					if !isP || !assignedIn(in.info, fd.Body, p) || inClosure[p] {
						continue
					}
					pi := -1
					for j := 0; j < sig.Params().Len(); j++ {
						if sig.Params().At(j) == p {
							pi = j
						}
					}
					if pi < 0 {
						continue
					}
					lobj := objOf(in.info, lid)
					if lobj == nil {
						continue
					}
					// an existing variable is only taken over when it is the very argument (its old value is the parameter's)
					if in.curTok == token.ASSIGN && !sameVar(in.info, call.Args[pi], lobj) {
						continue
					}
					// the variable must not be passed for another parameter as well
					other := false
					for j, a := range call.Args {
						if j != pi && sameVar(in.info, a, lobj) {
							other = true
						}
					}
					if other {
						continue
					}
					inout[p] = lobj
					inoutIdx[i] = true
				}
			}
		}
	}
	bind := func(p *types.Var, arg ast.Expr) bool {
		if p.Name() == "_" || p.Name() == "" {
			return true
		}
		if lobj, isIO := inout[p]; isIO {
			if !sameVar(in.info, arg, lobj) {
				id := &ast.Ident{NamePos: call.Pos(), Name: lobj.Name()}
				if in.curTok == token.DEFINE {
					in.info.Defs[id] = lobj
				} else {
					in.info.Uses[id] = lobj
				}
				pre = append(pre, &ast.AssignStmt{Lhs: []ast.Expr{id}, TokPos: call.Pos(), Tok: in.curTok, Rhs: []ast.Expr{arg}})
			}
			return true
		}
		assigned := assignedIn(in.info, fd.Body, p)
		if in.simpleArg(arg) && !inClosure[p] && !assigned && in.stableIn(arg, fd.Body) {
			subst[p] = arg
			return true
		}
		if exprOnly {
			return false
		}
		id := &ast.Ident{NamePos: call.Pos(), Name: p.Name()}
		in.info.Defs[id] = p
		pre = append(pre, &ast.AssignStmt{Lhs: []ast.Expr{id}, TokPos: call.Pos(), Tok: token.DEFINE, Rhs: []ast.Expr{arg}})
		return true
	}
	if r := sig.Recv(); r != nil {
		sel := unparen(call.Fun).(*ast.SelectorExpr)
		recv := ast.Expr(sel.X)
		if s := in.info.Selections[sel]; s != nil && len(s.Index()) > 1 {
			recv = in.explicitRecv(sel, s)
			if recv == nil {
				return nil, nil, false
			}
		}
		_, wantPtr := r.Type().(*types.Pointer)
		if tv, has := in.info.Types[recv]; has {
			_, isPtr := tv.Type.Underlying().(*types.Pointer)
			if wantPtr && !isPtr {
				u := &ast.UnaryExpr{OpPos: recv.Pos(), Op: token.AND, X: recv}
				in.info.Types[u] = types.TypeAndValue{Type: types.NewPointer(tv.Type)}
				recv = u
			} else if !wantPtr && isPtr {
				s := &ast.StarExpr{Star: recv.Pos(), X: recv}
				in.info.Types[s] = types.TypeAndValue{Type: tv.Type.Underlying().(*types.Pointer).Elem()}
				recv = s
			}
		}
		if !bind(r, recv) {
			return nil, nil, false
		}
	}
	for i, a := range call.Args {
		if !bind(sig.Params().At(i), a) {
			return nil, nil, false
		}
	}
	cp := &copier{info: in.info, subst: subst, rename: map[types.Object]types.Object{}}
	for p, lobj := range inout {
		cp.rename[p] = lobj
	}
	body := fd.Body.List
	// x := h(…) where h returns one of its own locals: that local simply is x from its first definition on (no copy is left
	// behind that would hide how x is built up)
	renamed := map[int]bool{}
	if !tail && in.curTok == token.DEFINE && len(body) > 0 {
		if r, isRet := body[len(body)-1].(*ast.ReturnStmt); isRet && len(r.Results) == len(in.curLHS) {
			params := map[types.Object]bool{}
			if rv := sig.Recv(); rv != nil {
				params[rv] = true
			}
			for i := 0; i < sig.Params().Len(); i++ {
				params[sig.Params().At(i)] = true
			}
			for i := 0; i < sig.Results().Len(); i++ {
				params[sig.Results().At(i)] = true
			}
			for i, res := range r.Results {
				lid, isID := in.curLHS[i].(*ast.Ident)
				if !isID || lid.Name == "_" || in.info.Defs[lid] == nil {
					continue
				}
				rid, isRID := unparen(res).(*ast.Ident)
				if !isRID {
					continue
				}
				o := in.info.Uses[rid]
				if v, isV := o.(*types.Var); !isV || params[o] || v.IsField() || !definedIn(in.info, fd.Body, o) || inClosure[o] {
					continue
				}
				if _, dup := cp.rename[o]; dup {
					continue
				}
				cp.rename[o] = in.info.Defs[lid]
				renamed[i] = true
			}
		}
	}
	if tail {
		// the call is the operand of a return: the callee's returns are the caller's, the body is spliced as it is
		for _, s := range body {
			pre = append(pre, cp.node(s).(ast.Stmt))
		}
		in.count++
		return pre, nil, true
	}
	var ret *ast.ReturnStmt
	if n := len(body); n > 0 {
		if r, isRet := body[n-1].(*ast.ReturnStmt); isRet {
			ret = r
			body = body[:n-1]
		}
	}
	if exprOnly && len(body) > 0 {
		return nil, nil, false
	}
	var deferred []ast.Stmt
	for _, s := range body {
		if d, isD := s.(*ast.DeferStmt); isD {
			// runs when the helper returns: after the rest of its body, last deferred first
			deferred = append([]ast.Stmt{&ast.ExprStmt{X: cp.node(d.Call).(ast.Expr)}}, deferred...)
			continue
		}
		pre = append(pre, cp.node(s).(ast.Stmt))
	}
	if len(deferred) > 0 && ret != nil {
		// the results are evaluated before the deferred calls run: they must be plain variables the deferred calls cannot change
		for _, r := range ret.Results {
			if _, isID := unparen(r).(*ast.Ident); !isID {
				return nil, nil, false
			}
		}
	}
	pre = append(pre, deferred...)
	if ret != nil {
		if len(ret.Results) == 0 {
			// named results
			for i := 0; i < sig.Results().Len(); i++ {
				rv := sig.Results().At(i)
				id := &ast.Ident{NamePos: ret.Pos(), Name: rv.Name()}
				in.info.Uses[id] = rv
				in.info.Types[id] = types.TypeAndValue{Type: rv.Type()}
				results = append(results, id)
			}
		} else {
			for i, r := range ret.Results {
				if renamed[i] || inoutIdx[i] {
					results = append(results, nil)
					continue
				}
				results = append(results, cp.node(r).(ast.Expr))
			}
		}
	}
	in.count++
	return pre, results, true
}

// block rewrites a statement list.
func (in *inliner) block(b *ast.BlockStmt, within *types.Func) *ast.BlockStmt {
	if b == nil {
		return nil
	}
	list, changed := in.stmts(b.List, within)
	if !changed {
		return b
	}
	return &ast.BlockStmt{Lbrace: b.Lbrace, List: list, Rbrace: b.Rbrace}
}

func (in *inliner) stmts(list []ast.Stmt, within *types.Func) ([]ast.Stmt, bool) {
	out, changed := in.stmtsOnce(list, within)
	// an expansion can open new ones (a literal argument that replaced a function parameter is now called directly)
	for round := 0; changed && round < 3; round++ {
		again, ch := in.stmtsOnce(out, within)
		if !ch {
			break
		}
		out = again
	}
	return out, changed
}

func (in *inliner) stmtsOnce(list []ast.Stmt, within *types.Func) ([]ast.Stmt, bool) {
	var out []ast.Stmt
	changed := false
	for i := 0; i < len(list); i++ {
		s := list[i]
		// v, ok := h(…); if !ok { FAIL }   — a helper with early failure returns (see guarded)
		if as, isAs := s.(*ast.AssignStmt); isAs && i+1 < len(list) {
			if ifs, isIf := list[i+1].(*ast.IfStmt); isIf && ifs.Init == nil && ifs.Else == nil {
				if repl, ok := in.guarded(as, ifs, within); ok {
					out = append(out, repl...)
					changed = true
					i++
					continue
				}
			}
		}
		// table-driven code back into the switch it stands for (see tables.go)
		if repl, used, ok := in.tableLookup(list, i); ok {
			out = append(out, repl...)
			changed = true
			i += used - 1
			continue
		}
		// if !h(args) { FAIL } with a boolean helper that has early `return false`s: the same through a synthetic flag
		if ifs, isIf := s.(*ast.IfStmt); isIf && ifs.Else == nil && ifs.Init == nil {
			if u, isU := unparen(ifs.Cond).(*ast.UnaryExpr); isU && u.Op == token.NOT {
				if call, isC := unparen(u.X).(*ast.CallExpr); isC {
					if f := callee(in.info, call); f != nil && in.fresh[f.Origin()] && f.Type().(*types.Signature).Results().Len() == 1 {
						if b, isB := f.Type().(*types.Signature).Results().At(0).Type().Underlying().(*types.Basic); isB && b.Info()&types.IsBoolean != 0 {
							flag := types.NewVar(call.Pos(), in.p.Types, "ok·", types.Typ[types.Bool])
							def := &ast.Ident{NamePos: call.Pos(), Name: "ok·"}
							in.info.Defs[def] = flag
							use := &ast.Ident{NamePos: call.Pos(), Name: "ok·"}
							in.info.Uses[use] = flag
							in.info.Types[use] = types.TypeAndValue{Type: types.Typ[types.Bool]}
							as := &ast.AssignStmt{Lhs: []ast.Expr{def}, TokPos: call.Pos(), Tok: token.DEFINE, Rhs: []ast.Expr{call}}
							cond := &ast.UnaryExpr{OpPos: u.OpPos, Op: token.NOT, X: use}
							in.info.Types[cond] = types.TypeAndValue{Type: types.Typ[types.Bool]}
							cpIf := *ifs
							cpIf.Cond = cond
							if repl, ok := in.guarded(as, &cpIf, within); ok {
								out = append(out, repl...)
								changed = true
								continue
							}
						}
					}
				}
			}
		}
		if ifs, isIf := s.(*ast.IfStmt); isIf && ifs.Else == nil {
			if as, isAs := ifs.Init.(*ast.AssignStmt); isAs {
				if repl, ok := in.guarded(as, ifs, within); ok {
					out = append(out, repl...)
					changed = true
					continue
				}
			}
		}
		repl, ch := in.stmt(s, within)
		if ch {
			changed = true
		}
		out = append(out, repl...)
	}
	return out, changed
}

// callOf: the statement-level call forms.
func singleCall(e ast.Expr) *ast.CallExpr {
	c, _ := unparen(e).(*ast.CallExpr)
	return c
}

func (in *inliner) stmt(s ast.Stmt, within *types.Func) ([]ast.Stmt, bool) {
	switch x := s.(type) {
	case *ast.ExprStmt:
		if call := singleCall(x.X); call != nil {
			if fd, f := in.inlinable(call, within); fd != nil {
				if in.tailOnly[call] {
					// a procedure with early returns: `if c { …; return }; rest` is `if c { … } else { rest }`
					if f.Type().(*types.Signature).Results().Len() == 0 {
						if repl, ok := in.expandMulti(&ast.AssignStmt{TokPos: call.Pos(), Tok: token.ASSIGN}, call, fd, f); ok {
							return repl, true
						}
					}
					return []ast.Stmt{s}, false
				}
				if pre, res, ok := in.expand(call, fd, f, false); ok {
					// results are discarded; keep a returned call for its effects
					for _, r := range res {
						if c := singleCall(r); c != nil {
							pre = append(pre, &ast.ExprStmt{X: c})
						}
					}
					if len(pre) == 0 {
						pre = append(pre, &ast.EmptyStmt{Semicolon: s.Pos(), Implicit: true})
					}
					return pre, true
				}
			}
		}
	case *ast.AssignStmt:
		if len(x.Rhs) == 1 {
			if call := singleCall(x.Rhs[0]); call != nil {
				if fd, f := in.inlinable(call, within); fd != nil {
					if in.tailOnly[call] {
						if repl, ok := in.expandMulti(x, call, fd, f); ok {
							return repl, true
						}
						return []ast.Stmt{s}, false
					}
					in.curLHS, in.curTok = x.Lhs, x.Tok
					pre, res, ok := in.expand(call, fd, f, false)
					in.curLHS, in.curTok = nil, token.ILLEGAL
					if ok && len(res) == len(x.Lhs) {
						cp := *x
						cp.Lhs, cp.Rhs = nil, nil
						for i, r := range res {
							if r != nil {
								cp.Lhs = append(cp.Lhs, x.Lhs[i])
								cp.Rhs = append(cp.Rhs, r)
							}
						}
						if len(cp.Lhs) == 0 {
							if len(pre) == 0 {
								pre = append(pre, &ast.EmptyStmt{Semicolon: s.Pos(), Implicit: true})
							}
							return pre, true
						}
						return append(pre, &cp), true
					}
				}
			}
		}
	case *ast.ReturnStmt:
		if repl, ok := in.returnThrough(x, within); ok {
			return repl, true
		}
		if len(x.Results) == 1 {
			if call := singleCall(x.Results[0]); call != nil {
				if fd, f := in.inlinable(call, within); fd != nil {
					if in.tailOnly[call] {
						in.asTail = true
						pre, _, ok := in.expand(call, fd, f, false)
						in.asTail = false
						if ok && len(pre) > 0 {
							return pre, true
						}
						return []ast.Stmt{s}, false
					}
					if pre, res, ok := in.expand(call, fd, f, false); ok && len(res) > 0 {
						cp := *x
						cp.Results = res
						return append(pre, &cp), true
					}
				}
			}
		}
	case *ast.IfStmt:
		var pre []ast.Stmt
		cp := *x
		changed := false
		if x.Init != nil {
			if repl, ch := in.stmt(x.Init, within); ch {
				pre = append(pre, repl...)
				cp.Init = nil
				changed = true
			}
		}
		if nb := in.block(x.Body, within); nb != x.Body {
			cp.Body = nb
			changed = true
		}
		if x.Else != nil {
			if repl, ch := in.stmt(x.Else, within); ch {
				if len(repl) == 1 {
					cp.Else = repl[0]
				} else {
					cp.Else = &ast.BlockStmt{Lbrace: x.Else.Pos(), List: repl, Rbrace: x.Else.End() - 1}
				}
				changed = true
			}
		}
		if ne, ch := in.expr(x.Cond, within); ch {
			cp.Cond = ne
			changed = true
		} else {
			// if h(args) / if !h(args) with a helper of several statements: its statements run right before the test
			inner, neg := unparen(x.Cond), false
			if u, isU := inner.(*ast.UnaryExpr); isU && u.Op == token.NOT {
				inner, neg = unparen(u.X), true
			}
			if call, isC := inner.(*ast.CallExpr); isC {
				if fd, f := in.inlinable(call, within); fd != nil && !in.tailOnly[call] {
					if p2, res, ok := in.expand(call, fd, f, false); ok && len(res) == 1 {
						pre = append(pre, p2...)
						cond := ast.Expr(&ast.ParenExpr{Lparen: call.Pos(), X: res[0], Rparen: call.End()})
						if tv, has := in.info.Types[call]; has {
							in.info.Types[cond] = tv
						}
						if neg {
							n := &ast.UnaryExpr{OpPos: x.Cond.Pos(), Op: token.NOT, X: cond}
							if tv, has := in.info.Types[x.Cond]; has {
								in.info.Types[n] = tv
							}
							cond = n
						}
						cp.Cond = cond
						changed = true
					}
				}
			}
		}
		if changed {
			return append(pre, &cp), true
		}
		return []ast.Stmt{s}, false
	case *ast.BlockStmt:
		if nb := in.block(x, within); nb != x {
			return []ast.Stmt{nb}, true
		}
		return []ast.Stmt{s}, false
	case *ast.ForStmt:
		if nb := in.block(x.Body, within); nb != x.Body {
			cp := *x
			cp.Body = nb
			return []ast.Stmt{&cp}, true
		}
		return []ast.Stmt{s}, false
	case *ast.RangeStmt:
		if nb := in.block(x.Body, within); nb != x.Body {
			cp := *x
			cp.Body = nb
			return []ast.Stmt{&cp}, true
		}
		return []ast.Stmt{s}, false
	case *ast.SwitchStmt:
		var pre []ast.Stmt
		cp := *x
		changed := false
		if x.Init != nil {
			if repl, ch := in.stmt(x.Init, within); ch {
				pre = append(pre, repl...)
				cp.Init = nil
				changed = true
			}
		}
		if nb, ch := in.clauses(x.Body, within); ch {
			cp.Body = nb
			changed = true
		}
		if changed {
			return append(pre, &cp), true
		}
		return []ast.Stmt{s}, false
	case *ast.TypeSwitchStmt:
		if nb, ch := in.clauses(x.Body, within); ch {
			cp := *x
			cp.Body = nb
			return []ast.Stmt{&cp}, true
		}
		return []ast.Stmt{s}, false
	case *ast.SelectStmt:
		if nb, ch := in.clauses(x.Body, within); ch {
			cp := *x
			cp.Body = nb
			return []ast.Stmt{&cp}, true
		}
		return []ast.Stmt{s}, false
	}
	// go h(args) / defer h(args) with a new named function: the same statement on a literal that holds h's body
	switch x := s.(type) {
	case *ast.GoStmt:
		if lit := in.bodyLiteral(x.Call, within); lit != nil {
			cp := *x
			cp.Call = lit
			return []ast.Stmt{&cp}, true
		}
	case *ast.DeferStmt:
		if lit := in.bodyLiteral(x.Call, within); lit != nil {
			cp := *x
			cp.Call = lit
			return []ast.Stmt{&cp}, true
		}
	}
	// expression-level expansion inside any other statement
	if ns, ch := in.exprsIn(s, within); ch {
		return []ast.Stmt{ns}, true
	}
	if repl, ok := in.hoistCall(s, within); ok {
		return repl, true
	}
	return []ast.Stmt{s}, false
}

// hoistCall: a statement that calls a new helper of several statements somewhere inside an expression —
// attrs = append(attrs, attribute.String(strings.TrimSpace(k), unescape(v))) — is `t := unescape(v)` followed by the statement
// on t, when nothing that is evaluated before the call can tell the difference: the calls written before it are conversions,
// len/cap or functions of strings/strconv/math/unicode (no effects), the call is evaluated unconditionally (not under && / ||,
// not in a literal), and no channel receive occurs in the statement. The definition of t is then expanded as any other.
func (in *inliner) hoistCall(s ast.Stmt, within *types.Func) ([]ast.Stmt, bool) {
	var roots []ast.Expr
	switch x := s.(type) {
	case *ast.AssignStmt:
		for _, l := range x.Lhs {
			if _, isID := unparen(l).(*ast.Ident); !isID {
				return nil, false
			}
		}
		roots = x.Rhs
	case *ast.ExprStmt:
		roots = []ast.Expr{x.X}
	case *ast.ReturnStmt:
		roots = x.Results
	default:
		return nil, false
	}
	var target *ast.CallExpr
	var stack []ast.Node
	refuse := false
	var calls []*ast.CallExpr
	for _, r := range roots {
		ast.Inspect(r, func(n ast.Node) bool {
			if n == nil {
				stack = stack[:len(stack)-1]
				return true
			}
			switch x := n.(type) {
			case *ast.FuncLit:
				return false
			case *ast.UnaryExpr:
				if x.Op == token.ARROW {
					refuse = true
				}
			case *ast.CallExpr:
				calls = append(calls, x)
				if target == nil && unparen(r) != ast.Expr(x) {
					if fd, f := in.inlinable(x, within); fd != nil && len(fd.Body.List) > 1 && f.Type().(*types.Signature).Results().Len() == 1 {
						target = x
						for _, a := range stack {
							if be, isB := a.(*ast.BinaryExpr); isB && (be.Op == token.LAND || be.Op == token.LOR) {
								refuse = true
							}
						}
					}
				}
			}
			stack = append(stack, n)
			return true
		})
	}
	if target == nil || refuse {
		return nil, false
	}
	for _, a := range target.Args {
		if u, isU := unparen(a).(*ast.UnaryExpr); isU && u.Op == token.AND {
			return nil, false
		}
	}
	for _, c := range calls {
		if c == target || c.End() > target.Pos() {
			continue // evaluated after the helper (it contains the helper's call, or is written after it)
		}
		if tv, has := in.info.Types[c.Fun]; has && tv.IsType() {
			continue
		}
		switch builtinName(in.info, c) {
		case "len", "cap", "min", "max":
			continue
		}
		if f := callee(in.info, c); f != nil && f.Pkg() != nil {
			switch f.Pkg().Path() {
			case "strings", "strconv", "math", "unicode", "unicode/utf8":
				continue
			}
		}
		return nil, false
	}
	tv, has := in.info.Types[target]
	if !has || tv.Type == nil {
		return nil, false
	}
	tmp := types.NewVar(target.Pos(), in.p.Types, "hoisted·", tv.Type)
	def := &ast.Ident{NamePos: target.Pos(), Name: "hoisted·"}
	in.info.Defs[def] = tmp
	as := &ast.AssignStmt{Lhs: []ast.Expr{def}, TokPos: target.Pos(), Tok: token.DEFINE, Rhs: []ast.Expr{target}}
	pre, ch := in.stmt(as, within)
	if !ch {
		return nil, false
	}
	cp := &copier{info: in.info, subst: map[types.Object]ast.Expr{}, onCall: func(c *ast.CallExpr) ast.Expr {
		if c != target {
			return nil
		}
		use := &ast.Ident{NamePos: target.Pos(), Name: "hoisted·"}
		in.info.Uses[use] = tmp
		in.info.Types[use] = types.TypeAndValue{Type: tv.Type}
		return use
	}}
	ns := cp.node(s).(ast.Stmt)
	return append(pre, ns), true
}

// bodyLiteral: for a call h(args) of a new declared function in a go/defer statement, the call `func(params){ body }(args')`
// that does the same: h's body in a literal. Arguments that are plain variables never assigned in the calling function after
// their definition are written into the body (so that the body talks about the caller's variables, as a goroutine literal
// would); all others stay arguments of the literal, evaluated where the go/defer statement is.
func (in *inliner) bodyLiteral(call *ast.CallExpr, within *types.Func) *ast.CallExpr {
	if call.Ellipsis.IsValid() {
		return nil
	}
	f := callee(in.info, call)
	if f == nil {
		return nil
	}
	f = f.Origin()
	fd := in.decls[f]
	if !in.fresh[f] || f == within || fd == nil || fd.Body == nil || in.state[f] == 1 {
		return nil
	}
	in.normalise(f)
	sig := f.Type().(*types.Signature)
	if sig.Variadic() || len(call.Args) != sig.Params().Len() {
		return nil
	}
	wfd := in.decls[within]
	stableVar := func(e ast.Expr) bool {
		id, ok := unparen(e).(*ast.Ident)
		if !ok || wfd == nil {
			return false
		}
		v, isV := in.info.Uses[id].(*types.Var)
		if !isV || v.IsField() {
			return false
		}
		n := 0
		ast.Inspect(wfd.Body, func(m ast.Node) bool {
			switch s := m.(type) {
			case *ast.AssignStmt:
				for _, l := range s.Lhs {
					if sameVar(in.info, l, v) {
						n++
					}
				}
			case *ast.IncDecStmt:
				if sameVar(in.info, s.X, v) {
					n += 2
				}
			case *ast.UnaryExpr:
				if s.Op == token.AND && sameVar(in.info, s.X, v) {
					n += 2
				}
			case *ast.RangeStmt:
				for _, e := range []ast.Expr{s.Key, s.Value} {
					if e != nil && sameVar(in.info, e, v) {
						n += 2
					}
				}
			}
			return true
		})
		return n <= 1
	}
	subst := map[types.Object]ast.Expr{}
	var params []*types.Var
	var fields []*ast.Field
	var args []ast.Expr
	pass := func(p *types.Var, arg ast.Expr) {
		if p.Name() == "_" || p.Name() == "" {
			return
		}
		if stableVar(arg) && !assignedIn(in.info, fd.Body, p) {
			subst[p] = arg
			return
		}
		id := &ast.Ident{NamePos: call.Pos(), Name: p.Name()}
		in.info.Defs[id] = p
		fields = append(fields, &ast.Field{Names: []*ast.Ident{id}, Type: typeExprPlaceholder(in.info, p.Type(), call.Pos())})
		params = append(params, p)
		args = append(args, arg)
	}
	if r := sig.Recv(); r != nil {
		sel, ok := unparen(call.Fun).(*ast.SelectorExpr)
		if !ok {
			return nil
		}
		s := in.info.Selections[sel]
		if s == nil || s.Kind() != types.MethodVal {
			return nil
		}
		recv := ast.Expr(sel.X)
		if len(s.Index()) > 1 {
			recv = in.explicitRecv(sel, s)
			if recv == nil {
				return nil
			}
		}
		if _, wantPtr := r.Type().(*types.Pointer); wantPtr {
			if tv, has := in.info.Types[recv]; has {
				if _, isPtr := tv.Type.Underlying().(*types.Pointer); !isPtr {
					return nil
				}
			}
		}
		pass(r, recv)
	}
	for i, a := range call.Args {
		pass(sig.Params().At(i), a)
	}
	cp := &copier{info: in.info, subst: subst}
	body := cp.node(fd.Body).(*ast.BlockStmt)
	lit := &ast.FuncLit{Type: &ast.FuncType{Func: call.Pos(), Params: &ast.FieldList{List: fields}}, Body: body}
	in.info.Types[lit] = types.TypeAndValue{Type: types.NewSignatureType(nil, nil, nil, types.NewTuple(params...), sig.Results(), false)}
	in.litDone[lit] = true
	out := &ast.CallExpr{Fun: lit, Lparen: call.Lparen, Args: args, Rparen: call.Rparen}
	if tv, has := in.info.Types[call]; has {
		in.info.Types[out] = tv
	}
	in.count++
	return out
}

// wholeBody: a function (literal) whose entire body is one call of a new function — h(a…), v… = h(a…) or return h(a…) — runs
// h in a frame that begins and ends with its own: h's deferred calls run where the caller's would, so h's body can stand in
// for the call even when it defers or returns from several places (the ordinary expansion refuses those). Parameters are
// bound at the top (or substituted when the argument is a variable that keeps its value); `return E` becomes `v = E; return`.
func (in *inliner) wholeBody(body *ast.BlockStmt, ft *ast.FuncType, within *types.Func) *ast.BlockStmt {
	if body == nil || len(body.List) != 1 {
		return nil
	}
	var call *ast.CallExpr
	var lhs []ast.Expr
	form := 0
	switch s := body.List[0].(type) {
	case *ast.ExprStmt:
		call, _ = unparen(s.X).(*ast.CallExpr)
		form = 1
	case *ast.AssignStmt:
		if s.Tok == token.ASSIGN && len(s.Rhs) == 1 {
			call, _ = unparen(s.Rhs[0]).(*ast.CallExpr)
			lhs = s.Lhs
			form = 2
			for _, l := range lhs {
				id, isID := l.(*ast.Ident)
				if !isID {
					return nil
				}
				if id.Name == "_" {
					continue
				}
				v, isV := in.info.Uses[id].(*types.Var)
				if !isV || v.IsField() || (v.Pkg() != nil && v.Parent() == v.Pkg().Scope()) {
					return nil
				}
			}
		}
	case *ast.ReturnStmt:
		if len(s.Results) == 1 {
			call, _ = unparen(s.Results[0]).(*ast.CallExpr)
			form = 3
		}
	}
	if call == nil || call.Ellipsis.IsValid() {
		return nil
	}
	f := callee(in.info, call)
	if f == nil {
		return nil
	}
	f = f.Origin()
	fd := in.decls[f]
	if !in.fresh[f] || f == within || fd == nil || fd.Body == nil || in.state[f] == 1 {
		return nil
	}
	in.normalise(f)
	fd = in.decls[f]
	sig := f.Type().(*types.Signature)
	if sig.Variadic() || len(call.Args) != sig.Params().Len() {
		return nil
	}
	if form == 2 && sig.Results().Len() != len(lhs) {
		return nil
	}
	if form == 3 {
		n := 0
		if ft != nil && ft.Results != nil {
			for _, fl := range ft.Results.List {
				if len(fl.Names) == 0 {
					n++
				}
				n += len(fl.Names)
			}
		}
		if n != sig.Results().Len() {
			return nil
		}
	}
	// the callee: no labels/goto/recover, no self call; named results are not touched by its closures
	named := map[types.Object]bool{}
	for i := 0; i < sig.Results().Len(); i++ {
		if r := sig.Results().At(i); r.Name() != "" && r.Name() != "_" {
			named[r] = true
		}
	}
	ok := true
	lits := 0
	var visit func(n ast.Node) bool
	visit = func(n ast.Node) bool {
		switch x := n.(type) {
		case *ast.LabeledStmt:
			ok = false
		case *ast.BranchStmt:
			if x.Tok == token.GOTO || x.Label != nil {
				ok = false
			}
		case *ast.FuncLit:
			lits++
			ast.Inspect(x.Body, visit)
			lits--
			return false
		case *ast.Ident:
			if lits > 0 && named[in.info.Uses[x]] {
				ok = false
			}
		case *ast.CallExpr:
			if builtinName(in.info, x) == "recover" {
				ok = false
			}
			if cf := callee(in.info, x); cf != nil && cf.Origin() == f {
				ok = false
			}
		}
		return ok
	}
	ast.Inspect(fd.Body, visit)
	if !ok {
		return nil
	}
	wfd := in.decls[within]
	stableVar := func(e ast.Expr) bool {
		id, isID := unparen(e).(*ast.Ident)
		if !isID || wfd == nil {
			return false
		}
		v, isV := in.info.Uses[id].(*types.Var)
		if !isV || v.IsField() {
			return false
		}
		n := 0
		ast.Inspect(wfd.Body, func(m ast.Node) bool {
			switch s := m.(type) {
			case *ast.AssignStmt:
				for _, l := range s.Lhs {
					if sameVar(in.info, l, v) {
						n++
					}
				}
			case *ast.IncDecStmt:
				if sameVar(in.info, s.X, v) {
					n += 2
				}
			case *ast.UnaryExpr:
				if s.Op == token.AND && sameVar(in.info, s.X, v) {
					n += 2
				}
			case *ast.RangeStmt:
				for _, e := range []ast.Expr{s.Key, s.Value} {
					if e != nil && sameVar(in.info, e, v) {
						n += 2
					}
				}
			}
			return true
		})
		return n <= 1
	}
	subst := map[types.Object]ast.Expr{}
	var pre []ast.Stmt
	pass := func(p *types.Var, arg ast.Expr) {
		if (p.Name() == "_" || p.Name() == "") && in.simpleArg(arg) {
			return
		}
		if stableVar(arg) && !assignedIn(in.info, fd.Body, p) {
			subst[p] = arg
			return
		}
		id := &ast.Ident{NamePos: call.Pos(), Name: p.Name()}
		if id.Name == "" {
			id.Name = "_"
		}
		in.info.Defs[id] = p
		pre = append(pre, &ast.AssignStmt{Lhs: []ast.Expr{id}, TokPos: call.Pos(), Tok: token.DEFINE, Rhs: []ast.Expr{arg}})
	}
	if r := sig.Recv(); r != nil {
		sel, isSel := unparen(call.Fun).(*ast.SelectorExpr)
		if !isSel {
			return nil
		}
		s := in.info.Selections[sel]
		if s == nil || s.Kind() != types.MethodVal {
			return nil
		}
		recv := ast.Expr(sel.X)
		if len(s.Index()) > 1 {
			if recv = in.explicitRecv(sel, s); recv == nil {
				return nil
			}
		}
		_, wantPtr := r.Type().(*types.Pointer)
		if tv, has := in.info.Types[recv]; has {
			_, isPtr := tv.Type.Underlying().(*types.Pointer)
			if wantPtr != isPtr {
				return nil
			}
		} else {
			return nil
		}
		pass(r, recv)
	}
	for i, a := range call.Args {
		pass(sig.Params().At(i), a)
	}
	// named results become locals of the spliced body
	var resIDs []ast.Expr
	for i := 0; i < sig.Results().Len(); i++ {
		r := sig.Results().At(i)
		if !named[r] {
			continue
		}
		id := &ast.Ident{NamePos: call.Pos(), Name: r.Name()}
		in.info.Defs[id] = r
		pre = append(pre, &ast.DeclStmt{Decl: &ast.GenDecl{TokPos: call.Pos(), Tok: token.VAR, Specs: []ast.Spec{&ast.ValueSpec{Names: []*ast.Ident{id}, Type: typeExprPlaceholder(in.info, r.Type(), call.Pos())}}}})
	}
	if len(named) > 0 {
		if len(named) != sig.Results().Len() {
			return nil
		}
		for i := 0; i < sig.Results().Len(); i++ {
			r := sig.Results().At(i)
			id := &ast.Ident{NamePos: call.Pos(), Name: r.Name()}
			in.info.Uses[id] = r
			in.info.Types[id] = types.TypeAndValue{Type: r.Type()}
			resIDs = append(resIDs, id)
		}
	}
	cp := &copier{info: in.info, subst: subst}
	cp.onReturn = func(r *ast.ReturnStmt) ast.Stmt {
		inner := &copier{info: in.info, subst: subst}
		var vals []ast.Expr
		for _, e := range r.Results {
			vals = append(vals, inner.node(e).(ast.Expr))
		}
		if len(vals) == 0 {
			vals = resIDs
		}
		switch form {
		case 3:
			return &ast.ReturnStmt{Return: r.Return, Results: vals}
		case 2:
			if len(vals) == 0 {
				return &ast.ReturnStmt{Return: r.Return}
			}
			return &ast.BlockStmt{Lbrace: r.Return, List: []ast.Stmt{
				&ast.AssignStmt{Lhs: lhs, TokPos: r.Return, Tok: token.ASSIGN, Rhs: vals},
				&ast.ReturnStmt{Return: r.Return},
			}, Rbrace: r.End()}
		}
		// results dropped: only their evaluation remains
		var blanks []ast.Expr
		keep := false
		for _, v := range vals {
			if !in.simpleArg(v) {
				keep = true
			}
		}
		if !keep || len(r.Results) == 0 {
			return &ast.ReturnStmt{Return: r.Return}
		}
		for i := 0; i < sig.Results().Len(); i++ {
			blanks = append(blanks, &ast.Ident{NamePos: r.Return, Name: "_"})
		}
		return &ast.BlockStmt{Lbrace: r.Return, List: []ast.Stmt{
			&ast.AssignStmt{Lhs: blanks, TokPos: r.Return, Tok: token.ASSIGN, Rhs: vals},
			&ast.ReturnStmt{Return: r.Return},
		}, Rbrace: r.End()}
	}
	nb := cp.node(fd.Body).(*ast.BlockStmt)
	out := &ast.BlockStmt{Lbrace: body.Lbrace, Rbrace: body.Rbrace}
	out.List = append(out.List, pre...)
	out.List = append(out.List, nb.List...)
	// a body that ran off its end returned nothing: with named results and form 2/3 that cannot happen (a return is required)
	in.count++
	return out
}

// typeExprPlaceholder: an identifier standing for type t in a synthesised parameter list (carries the type, is never resolved
// by name).
func typeExprPlaceholder(info *types.Info, t types.Type, pos token.Pos) ast.Expr {
	id := &ast.Ident{NamePos: pos, Name: "_T"}
	info.Types[id] = types.TypeAndValue{Type: t}
	return id
}

func (in *inliner) clauses(b *ast.BlockStmt, within *types.Func) (*ast.BlockStmt, bool) {
	var out []ast.Stmt
	changed := false
	for _, cl := range b.List {
		switch cc := cl.(type) {
		case *ast.CaseClause:
			if list, ch := in.stmts(cc.Body, within); ch {
				cp := *cc
				cp.Body = list
				if in.info.Implicits[cc] != nil {
					in.info.Implicits[&cp] = in.info.Implicits[cc]
				}
				out = append(out, &cp)
				changed = true
				continue
			}
		case *ast.CommClause:
			if list, ch := in.stmts(cc.Body, within); ch {
				cp := *cc
				cp.Body = list
				out = append(out, &cp)
				changed = true
				continue
			}
		}
		out = append(out, cl)
	}
	if !changed {
		return b, false
	}
	return &ast.BlockStmt{Lbrace: b.Lbrace, List: out, Rbrace: b.Rbrace}, true
}

// expr replaces calls of expression-only callees (`return e`) inside e.
func (in *inliner) expr(e ast.Expr, within *types.Func) (ast.Expr, bool) {
	if e == nil {
		return e, false
	}
	if ne, ch := in.methodValues(e, within); ch {
		e2, _ := in.exprCalls(ne, within)
		return e2, true
	}
	return in.exprCalls(e, within)
}

// methodValues: x.m used as a value (not called) where m is a new method — the closure func(params) { m's body with the
// receiver written in } when x is a plain variable that is not reassigned in the function; that is what the method value does.
func (in *inliner) methodValues(e ast.Expr, within *types.Func) (ast.Expr, bool) {
	called := map[ast.Expr]bool{}
	var cands []*ast.SelectorExpr
	ast.Inspect(e, func(n ast.Node) bool {
		switch x := n.(type) {
		case *ast.FuncLit:
			return false
		case *ast.CallExpr:
			called[unparen(x.Fun)] = true
		case *ast.SelectorExpr:
			if s := in.info.Selections[x]; s != nil && s.Kind() == types.MethodVal && !called[x] && len(s.Index()) == 1 {
				if f, isF := s.Obj().(*types.Func); isF && in.fresh[f.Origin()] && f.Origin() != within {
					cands = append(cands, x)
				}
			}
		}
		return true
	})
	if len(cands) == 0 {
		return e, false
	}
	wfd := in.decls[within]
	repl := map[*ast.SelectorExpr]ast.Expr{}
	for _, sel := range cands {
		f := in.info.Selections[sel].Obj().(*types.Func).Origin()
		fd := in.decls[f]
		if fd == nil || fd.Body == nil || in.state[f] == 1 || wfd == nil {
			continue
		}
		in.normalise(f)
		sig := f.Type().(*types.Signature)
		if sig.Variadic() {
			continue
		}
		id, isID := unparen(sel.X).(*ast.Ident)
		if !isID {
			// T{f: v, …}.m (or (&T{…}).m): the receiver is a fresh value known field by field; the body may only read those fields,
			// and each given value denotes the same thing whenever it is evaluated (&local, a constant, a variable assigned once)
			if lit := in.litMethodValue(sel, sel.X, fd, sig, wfd); lit != nil {
				repl[sel] = lit
				in.count++
			}
			continue
		}
		rv, isV := in.info.Uses[id].(*types.Var)
		// a struct-valued local that is defined once by a literal and never touched again stands for that literal
		if isV && !rv.IsField() {
			if _, isPtr := rv.Type().Underlying().(*types.Pointer); !isPtr {
				if _, wantPtr := sig.Recv().Type().(*types.Pointer); !wantPtr {
					if def := in.soleLiteralDef(rv, wfd); def != nil {
						if lit := in.litMethodValue(sel, def, fd, sig, wfd); lit != nil {
							repl[sel] = lit
							in.count++
						}
					}
					continue
				}
			}
		}
		if !isV || rv.IsField() || assignedIn(in.info, fd.Body, sig.Recv()) {
			continue
		}
		// the receiver variable keeps its value: at most its definition assigns it, its address is not taken
		n := 0
		ast.Inspect(wfd.Body, func(m ast.Node) bool {
			switch s := m.(type) {
			case *ast.AssignStmt:
				for _, l := range s.Lhs {
					if sameVar(in.info, l, rv) {
						n++
					}
				}
			case *ast.UnaryExpr:
				if s.Op == token.AND && sameVar(in.info, s.X, rv) {
					n += 2
				}
			}
			return true
		})
		if n > 1 {
			continue
		}
		// value receivers copy at the time the method value is taken: only pointer receivers (or pointer-typed variables)
		if _, wantPtr := sig.Recv().Type().(*types.Pointer); !wantPtr {
			continue
		}
		if _, isPtr := rv.Type().Underlying().(*types.Pointer); !isPtr {
			continue
		}
		var fields []*ast.Field
		for i := 0; i < sig.Params().Len(); i++ {
			p := sig.Params().At(i)
			pid := &ast.Ident{NamePos: sel.Pos(), Name: p.Name()}
			if p.Name() == "" {
				pid.Name = "_"
			}
			in.info.Defs[pid] = p
			fields = append(fields, &ast.Field{Names: []*ast.Ident{pid}, Type: typeExprPlaceholder(in.info, p.Type(), sel.Pos())})
		}
		cp := &copier{info: in.info, subst: map[types.Object]ast.Expr{sig.Recv(): sel.X}}
		lit := &ast.FuncLit{Type: &ast.FuncType{Func: sel.Pos(), Params: &ast.FieldList{List: fields}}, Body: cp.node(fd.Body).(*ast.BlockStmt)}
		in.info.Types[lit] = types.TypeAndValue{Type: types.NewSignatureType(nil, nil, nil, sig.Params(), sig.Results(), false)}
		in.litDone[lit] = true
		repl[sel] = lit
		in.count++
	}
	if len(repl) == 0 {
		return e, false
	}
	cp := &copier{info: in.info, subst: map[types.Object]ast.Expr{}}
	cp.onSelector = func(s *ast.SelectorExpr) ast.Expr { return repl[s] }
	return cp.node(e).(ast.Expr), true
}

// litMethodValue builds the closure for T{f: v}.m: m's body with recv.f replaced by v.
// dropDeadDefs removes `v := T{…}` (a literal of plain operands) when nothing reads v any more: the compiler rejects unused
// variables, so such a definition is what is left of a value whose only use was expanded away.
func (in *inliner) dropDeadDefs(body *ast.BlockStmt) {
	uses := map[types.Object]int{}
	ast.Inspect(body, func(n ast.Node) bool {
		if id, ok := n.(*ast.Ident); ok {
			if o := in.info.Uses[id]; o != nil {
				uses[o]++
			}
		}
		return true
	})
	var pure func(e ast.Expr) bool
	pure = func(e ast.Expr) bool {
		switch x := unparen(e).(type) {
		case *ast.CompositeLit:
			for _, el := range x.Elts {
				if kv, ok := el.(*ast.KeyValueExpr); ok {
					el = kv.Value
				}
				if !pure(el) {
					return false
				}
			}
			return true
		case *ast.UnaryExpr:
			return x.Op == token.AND && pure(x.X)
		case *ast.Ident, *ast.BasicLit:
			return true
		case *ast.SelectorExpr:
			return pure(x.X)
		}
		return false
	}
	dead := func(st ast.Stmt) bool {
		as, ok := st.(*ast.AssignStmt)
		if !ok || as.Tok != token.DEFINE || len(as.Lhs) != 1 || len(as.Rhs) != 1 {
			return false
		}
		id, isID := as.Lhs[0].(*ast.Ident)
		if !isID {
			return false
		}
		o := in.info.Defs[id]
		if o == nil || uses[o] > 0 {
			return false
		}
		_, isCL := unparen(as.Rhs[0]).(*ast.CompositeLit)
		return isCL && pure(as.Rhs[0])
	}
	filter := func(list []ast.Stmt) []ast.Stmt {
		out := list[:0:0]
		for _, st := range list {
			if !dead(st) {
				out = append(out, st)
			}
		}
		return out
	}
	ast.Inspect(body, func(n ast.Node) bool {
		switch x := n.(type) {
		case *ast.BlockStmt:
			x.List = filter(x.List)
		case *ast.CaseClause:
			x.Body = filter(x.Body)
		case *ast.CommClause:
			x.Body = filter(x.Body)
		}
		return true
	})
}

// soleLiteralDef: v := T{…} as the only thing that ever writes v (no other assignment, no store into a field, no &v, no
// method with a pointer receiver called on it).
func (in *inliner) soleLiteralDef(v *types.Var, wfd *ast.FuncDecl) ast.Expr {
	var def ast.Expr
	n := 0
	ast.Inspect(wfd.Body, func(m ast.Node) bool {
		switch s := m.(type) {
		case *ast.AssignStmt:
			for i, l := range s.Lhs {
				root := l
				for {
					if se, ok := unparen(root).(*ast.SelectorExpr); ok {
						root = se.X
						continue
					}
					if ie, ok := unparen(root).(*ast.IndexExpr); ok {
						root = ie.X
						continue
					}
					break
				}
				if !sameVar(in.info, root, v) {
					continue
				}
				n++
				if root == l && s.Tok == token.DEFINE && len(s.Lhs) == len(s.Rhs) {
					def = s.Rhs[i]
				} else {
					n++
				}
			}
		case *ast.IncDecStmt:
			if sameVar(in.info, s.X, v) {
				n += 2
			}
		case *ast.UnaryExpr:
			if s.Op == token.AND {
				root := s.X
				for {
					if se, ok := unparen(root).(*ast.SelectorExpr); ok {
						root = se.X
						continue
					}
					break
				}
				if sameVar(in.info, root, v) {
					n += 2
				}
			}
		case *ast.SelectorExpr:
			// v.m() with a pointer receiver takes &v implicitly
			if sel := in.info.Selections[s]; sel != nil && sel.Kind() == types.MethodVal && sameVar(in.info, s.X, v) {
				if f, isF := sel.Obj().(*types.Func); isF {
					if _, ptr := f.Type().(*types.Signature).Recv().Type().(*types.Pointer); ptr {
						n += 2
					}
				}
			}
		}
		return true
	})
	if n != 1 || def == nil {
		return nil
	}
	if _, isCL := unparen(def).(*ast.CompositeLit); !isCL {
		return nil
	}
	return def
}

func (in *inliner) litMethodValue(sel *ast.SelectorExpr, recvExpr ast.Expr, fd *ast.FuncDecl, sig *types.Signature, wfd *ast.FuncDecl) *ast.FuncLit {
	x := unparen(recvExpr)
	if u, isU := x.(*ast.UnaryExpr); isU && u.Op == token.AND {
		x = unparen(u.X)
	}
	cl, isCL := x.(*ast.CompositeLit)
	if !isCL || sig.Recv() == nil {
		return nil
	}
	recv := sig.Recv()
	if assignedIn(in.info, fd.Body, recv) {
		return nil
	}
	vals := map[string]ast.Expr{}
	for _, el := range cl.Elts {
		kv, isKV := el.(*ast.KeyValueExpr)
		if !isKV {
			return nil
		}
		k, isID := kv.Key.(*ast.Ident)
		if !isID {
			return nil
		}
		v := unparen(kv.Value)
		stable := false
		if tv, has := in.info.Types[v]; has && tv.Value != nil {
			stable = true
		}
		inner := v
		if u, isU := v.(*ast.UnaryExpr); isU && u.Op == token.AND {
			if id, isID := unparen(u.X).(*ast.Ident); isID {
				if lv, isV := in.info.Uses[id].(*types.Var); isV && !lv.IsField() {
					stable = true // the address of a variable is the same each time
				}
			}
			inner = nil
		}
		// x.f.g on a struct-valued variable (no pointer on the way) is as stable as x, provided nothing stores through x
		viaFields := false
		for inner != nil {
			se, isSel := unparen(inner).(*ast.SelectorExpr)
			if !isSel {
				break
			}
			s := in.info.Selections[se]
			if s == nil || s.Kind() != types.FieldVal || s.Indirect() {
				inner = nil
				break
			}
			inner = unparen(se.X)
			viaFields = true
		}
		if id, isID := inner.(*ast.Ident); isID && !stable {
			if lv, isV := in.info.Uses[id].(*types.Var); isV && !lv.IsField() {
				n := 0
				ast.Inspect(wfd.Body, func(m ast.Node) bool {
					switch s := m.(type) {
					case *ast.AssignStmt:
						for _, l := range s.Lhs {
							root := l
							for viaFields {
								if se, ok := unparen(root).(*ast.SelectorExpr); ok {
									root = se.X
									if sameVar(in.info, root, lv) {
										n += 2 // a store into a field of it
									}
									continue
								}
								break
							}
							if sameVar(in.info, l, lv) {
								n++
							}
						}
					case *ast.IncDecStmt:
						if sameVar(in.info, s.X, lv) {
							n += 2
						}
					case *ast.UnaryExpr:
						if s.Op == token.AND && sameVar(in.info, s.X, lv) {
							n += 2
						}
					}
					return true
				})
				stable = n <= 1
			}
		}
		if !stable {
			return nil
		}
		vals[k.Name] = kv.Value
	}
	// every use of the receiver in the body is recv.f with f given in the literal
	okUse := true
	selX := map[*ast.Ident]bool{}
	ast.Inspect(fd.Body, func(m ast.Node) bool {
		switch s := m.(type) {
		case *ast.SelectorExpr:
			if id, isID := s.X.(*ast.Ident); isID && in.info.Uses[id] == recv {
				if _, has := vals[s.Sel.Name]; has && in.info.Selections[s] != nil && in.info.Selections[s].Kind() == types.FieldVal {
					selX[id] = true
				}
			}
		case *ast.Ident:
			if in.info.Uses[s] == recv && !selX[s] {
				okUse = false
			}
		}
		return true
	})
	if !okUse {
		return nil
	}
	var fields []*ast.Field
	for i := 0; i < sig.Params().Len(); i++ {
		p := sig.Params().At(i)
		pid := &ast.Ident{NamePos: sel.Pos(), Name: p.Name()}
		if p.Name() == "" {
			pid.Name = "_"
		}
		in.info.Defs[pid] = p
		fields = append(fields, &ast.Field{Names: []*ast.Ident{pid}, Type: typeExprPlaceholder(in.info, p.Type(), sel.Pos())})
	}
	cp := &copier{info: in.info, subst: map[types.Object]ast.Expr{}}
	cp.onSelector = func(s *ast.SelectorExpr) ast.Expr {
		if id, isID := s.X.(*ast.Ident); isID && in.info.Uses[id] == recv {
			if v, has := vals[s.Sel.Name]; has {
				inner := &copier{info: in.info, subst: map[types.Object]ast.Expr{}}
				return &ast.ParenExpr{X: inner.node(v).(ast.Expr)}
			}
		}
		return nil
	}
	lit := &ast.FuncLit{Type: &ast.FuncType{Func: sel.Pos(), Params: &ast.FieldList{List: fields}}, Body: cp.node(fd.Body).(*ast.BlockStmt)}
	in.info.Types[lit] = types.TypeAndValue{Type: types.NewSignatureType(nil, nil, nil, sig.Params(), sig.Results(), false)}
	in.litDone[lit] = true
	return lit
}

func (in *inliner) exprCalls(e ast.Expr, within *types.Func) (ast.Expr, bool) {
	if e == nil {
		return e, false
	}
	found := false
	ast.Inspect(e, func(n ast.Node) bool {
		if _, isLit := n.(*ast.FuncLit); isLit {
			return false
		}
		if c, ok := n.(*ast.CallExpr); ok {
			if fd, _ := in.inlinable(c, within); fd != nil && len(fd.Body.List) == 1 {
				found = true
			}
		}
		return !found
	})
	if !found {
		return e, false
	}
	replaced := false
	cp := &copier{info: in.info, subst: map[types.Object]ast.Expr{}, onCall: func(c *ast.CallExpr) ast.Expr {
		fd, f := in.inlinable(c, within)
		if fd == nil || len(fd.Body.List) != 1 {
			return nil
		}
		_, res, ok := in.expand(c, fd, f, true)
		if !ok || len(res) != 1 {
			return nil
		}
		replaced = true
		p := &ast.ParenExpr{Lparen: c.Pos(), X: res[0], Rparen: c.End()}
		if tv, has := in.info.Types[c]; has {
			in.info.Types[p] = tv
		}
		return p
	}}
	out := cp.node(e).(ast.Expr)
	if !replaced {
		return e, false
	}
	return out, true
}

// exprsIn: expression-level expansion in the expressions of a simple statement.
func (in *inliner) exprsIn(s ast.Stmt, within *types.Func) (ast.Stmt, bool) {
	switch x := s.(type) {
	case *ast.AssignStmt:
		cp := *x
		changed := false
		cp.Rhs = append([]ast.Expr{}, x.Rhs...)
		for i, r := range x.Rhs {
			if ne, ch := in.expr(r, within); ch {
				cp.Rhs[i] = ne
				changed = true
			}
		}
		if changed {
			return &cp, true
		}
	case *ast.ReturnStmt:
		cp := *x
		changed := false
		cp.Results = append([]ast.Expr{}, x.Results...)
		for i, r := range x.Results {
			if ne, ch := in.expr(r, within); ch {
				cp.Results[i] = ne
				changed = true
			}
		}
		if changed {
			return &cp, true
		}
	case *ast.ExprStmt:
		if ne, ch := in.expr(x.X, within); ch {
			cp := *x
			cp.X = ne
			return &cp, true
		}
	case *ast.SendStmt:
		if ne, ch := in.expr(x.Value, within); ch {
			cp := *x
			cp.Value = ne
			return &cp, true
		}
	case *ast.IncDecStmt, *ast.DeclStmt:
	}
	return s, false
}

// copier deep-copies a sub-tree, replacing identifiers that denote substituted objects and propagating the type information of
// every copied node.
type copier struct {
	info       *types.Info
	subst      map[types.Object]ast.Expr
	onCall     func(*ast.CallExpr) ast.Expr
	onReturn   func(*ast.ReturnStmt) ast.Stmt // replaces return statements (not inside function literals)
	onSelector func(*ast.SelectorExpr) ast.Expr
	inLit      int
	rename     map[types.Object]types.Object // callee local → the caller's variable it becomes
}

var astNodeType = reflect.TypeOf((*ast.Node)(nil)).Elem()

func (cp *copier) node(n ast.Node) ast.Node {
	if n == nil {
		return nil
	}
	rv := reflect.ValueOf(n)
	if rv.Kind() == reflect.Ptr && rv.IsNil() {
		return n
	}
	if id, ok := n.(*ast.Ident); ok {
		if o := cp.info.Uses[id]; o != nil {
			if e, has := cp.subst[o]; has {
				return e
			}
		}
		return cp.ident(id)
	}
	if c, ok := n.(*ast.CallExpr); ok && cp.onCall != nil {
		if e := cp.onCall(c); e != nil {
			return e
		}
	}
	if r, ok := n.(*ast.ReturnStmt); ok && cp.onReturn != nil && cp.inLit == 0 {
		return cp.onReturn(r)
	}
	if s, ok := n.(*ast.SelectorExpr); ok && cp.onSelector != nil {
		if e := cp.onSelector(s); e != nil {
			return e
		}
	}
	if _, ok := n.(*ast.FuncLit); ok {
		cp.inLit++
		defer func() { cp.inLit-- }()
	}
	if rv.Kind() != reflect.Ptr || rv.Elem().Kind() != reflect.Struct {
		return n
	}
	old := rv.Elem()
	nv := reflect.New(old.Type())
	nv.Elem().Set(old)
	for i := 0; i < old.NumField(); i++ {
		f := nv.Elem().Field(i)
		if !f.CanSet() {
			continue
		}
		switch f.Kind() {
		case reflect.Interface:
			if f.IsNil() {
				continue
			}
			if sub, ok := f.Interface().(ast.Node); ok {
				r := cp.node(sub)
				if r != nil && reflect.TypeOf(r).AssignableTo(f.Type()) {
					f.Set(reflect.ValueOf(r))
				}
			}
		case reflect.Ptr:
			if f.IsNil() {
				continue
			}
			if id, ok := f.Interface().(*ast.Ident); ok {
				// a field of static type *ast.Ident (selector name, label, field name): copied, never substituted
				f.Set(reflect.ValueOf(cp.ident(id)))
				continue
			}
			if sub, ok := f.Interface().(ast.Node); ok {
				r := cp.node(sub)
				if r != nil && reflect.TypeOf(r).AssignableTo(f.Type()) {
					f.Set(reflect.ValueOf(r))
				}
			}
		case reflect.Slice:
			if f.IsNil() || f.Len() == 0 {
				continue
			}
			et := f.Type().Elem()
			if !(et.Implements(astNodeType) || (et.Kind() == reflect.Interface && et.Implements(astNodeType))) {
				continue
			}
			ns := reflect.MakeSlice(f.Type(), f.Len(), f.Len())
			for j := 0; j < f.Len(); j++ {
				el := f.Index(j)
				ns.Index(j).Set(el)
				if (el.Kind() == reflect.Interface || el.Kind() == reflect.Ptr) && !el.IsNil() {
					if id, isID := el.Interface().(*ast.Ident); isID && et.Kind() == reflect.Ptr {
						ns.Index(j).Set(reflect.ValueOf(cp.ident(id)))
						continue
					}
					if sub, ok := el.Interface().(ast.Node); ok {
						r := cp.node(sub)
						if r != nil && reflect.TypeOf(r).AssignableTo(et) {
							ns.Index(j).Set(reflect.ValueOf(r))
						}
					}
				}
			}
			f.Set(ns)
		}
	}
	out := nv.Interface().(ast.Node)
	cp.copyInfo(n, out)
	// *(&x) left behind by substituting &x for a pointer parameter is x, and (&x).f is x.f
	if st, ok := out.(*ast.StarExpr); ok {
		if u, isU := unparen(st.X).(*ast.UnaryExpr); isU && u.Op == token.AND {
			return u.X
		}
	}
	if se, ok := out.(*ast.SelectorExpr); ok {
		if u, isU := unparen(se.X).(*ast.UnaryExpr); isU && u.Op == token.AND {
			se.X = u.X
		}
	}
	return out
}

func (cp *copier) ident(id *ast.Ident) *ast.Ident {
	nid := *id
	if o := cp.info.Uses[id]; o != nil {
		if r, has := cp.rename[o]; has {
			o = r
			nid.Name = r.Name()
		}
		cp.info.Uses[&nid] = o
	}
	if o, has := cp.info.Defs[id]; has {
		if r, ren := cp.rename[o]; ren && o != nil {
			o = r
			nid.Name = r.Name()
		}
		cp.info.Defs[&nid] = o
	}
	if tv, has := cp.info.Types[id]; has {
		cp.info.Types[&nid] = tv
	}
	if inst, has := cp.info.Instances[id]; has {
		cp.info.Instances[&nid] = inst
	}
	return &nid
}

func (cp *copier) copyInfo(old, nw ast.Node) {
	if oe, ok := old.(ast.Expr); ok {
		if tv, has := cp.info.Types[oe]; has {
			cp.info.Types[nw.(ast.Expr)] = tv
		}
	}
	switch o := old.(type) {
	case *ast.SelectorExpr:
		if s, has := cp.info.Selections[o]; has {
			cp.info.Selections[nw.(*ast.SelectorExpr)] = s
		}
	case *ast.CaseClause:
		if im, has := cp.info.Implicits[o]; has {
			cp.info.Implicits[nw] = im
		}
	}
}

// guarded expands a helper with early failure returns at a call site of the form
//
//	lhs…, ok := h(args)          or     if lhs…, ok = h(args); !ok { FAIL }
//	if !ok { FAIL }
//
// (likewise `err != nil` with an error as last result) where FAIL ends in a return. Every return of h yields a literal false
// (resp. a non-nil error) or a literal true (resp. nil) as its last result, and the last statement of h is its only success
// return. The expansion is h's body with each failure return replaced by { lhs… = results; FAIL } and the final return by the
// assignment of its results; the guard itself disappears (it cannot fire after the success return). This is exact: the
// failure paths leave through copies of FAIL, everything after the call is reached only through h's success path.
func (in *inliner) guarded(as *ast.AssignStmt, ifs *ast.IfStmt, within *types.Func) ([]ast.Stmt, bool) {
	if len(as.Rhs) != 1 || len(as.Lhs) < 1 {
		return nil, false
	}
	call := singleCall(as.Rhs[0])
	if call == nil || call.Ellipsis.IsValid() {
		return nil, false
	}
	f := callee(in.info, call)
	if f == nil {
		return nil, false
	}
	f = f.Origin()
	fd := in.decls[f]
	if !in.fresh[f] || f == within || fd == nil || fd.Body == nil || in.state[f] == 1 {
		return nil, false
	}
	in.normalise(f)
	sig := f.Type().(*types.Signature)
	if sig.Variadic() || sig.Results().Len() != len(as.Lhs) || len(call.Args) != sig.Params().Len() {
		return nil, false
	}
	if sig.Recv() != nil {
		sel, ok := unparen(call.Fun).(*ast.SelectorExpr)
		if !ok {
			return nil, false
		}
		if s := in.info.Selections[sel]; s == nil || s.Kind() != types.MethodVal || (len(s.Index()) != 1 && in.explicitRecv(sel, s) == nil) {
			return nil, false
		}
	}
	// the guard tests the last left-hand side: !ok  or  err != nil
	okVar := objOf(in.info, as.Lhs[len(as.Lhs)-1])
	if okVar == nil {
		return nil, false
	}
	lastT := sig.Results().At(sig.Results().Len() - 1).Type()
	isBool := false
	if b, isB := lastT.Underlying().(*types.Basic); isB && b.Info()&types.IsBoolean != 0 {
		isBool = true
	} else if !types.Identical(lastT, types.Universe.Lookup("error").Type()) {
		return nil, false
	}
	if isBool {
		u, isU := unparen(ifs.Cond).(*ast.UnaryExpr)
		if !isU || u.Op != token.NOT || !sameVar(in.info, u.X, okVar) {
			return nil, false
		}
	} else {
		nn, isCmp := nilCmp(in.info, ifs.Cond, 1, func(e ast.Expr) bool { return sameVar(in.info, e, okVar) })
		if !isCmp || !nn {
			return nil, false
		}
	}
	// FAIL ends in a return and has no break/continue of its own that would bind differently inside h's loops
	fail := ifs.Body.List
	if len(fail) == 0 {
		return nil, false
	}
	if _, isRet := fail[len(fail)-1].(*ast.ReturnStmt); !isRet {
		return nil, false
	}
	badFail := false
	ast.Inspect(ifs.Body, func(n ast.Node) bool {
		switch n.(type) {
		case *ast.BranchStmt:
			badFail = true
		case *ast.FuncLit:
			return false
		}
		return true
	})
	if badFail {
		return nil, false
	}
	// h: like simpleBody but with several returns, classified by their last result
	nret := 0
	okBody := true
	params := map[types.Object]bool{}
	if r := sig.Recv(); r != nil {
		params[r] = true
	}
	for i := 0; i < sig.Params().Len(); i++ {
		params[sig.Params().At(i)] = true
	}
	// for every return of h: the error variables known non-nil there (enclosing `if v != nil` bodies)
	nonNilAt := map[*ast.ReturnStmt]map[types.Object]bool{}
	{
		var walk func(n ast.Node, known map[types.Object]bool)
		walk = func(n ast.Node, known map[types.Object]bool) {
			ast.Inspect(n, func(m ast.Node) bool {
				switch x := m.(type) {
				case *ast.FuncLit:
					return false
				case *ast.ReturnStmt:
					nonNilAt[x] = known
				case *ast.IfStmt:
					if x.Init != nil {
						walk(x.Init, known)
					}
					inner := known
					if be, ok := unparen(x.Cond).(*ast.BinaryExpr); ok && be.Op == token.NEQ && isNilIdent(in.info, be.Y) {
						if o := objOf(in.info, be.X); o != nil {
							inner = map[types.Object]bool{o: true}
							for k := range known {
								inner[k] = true
							}
						}
					}
					walk(x.Body, inner)
					if x.Else != nil {
						walk(x.Else, known)
					}
					return false
				}
				return true
			})
		}
		walk(fd.Body, map[types.Object]bool{})
	}
	success := func(r *ast.ReturnStmt) (isSuccess, known bool) {
		if len(r.Results) != sig.Results().Len() {
			return false, false
		}
		last := r.Results[len(r.Results)-1]
		if isBool {
			tv, has := in.info.Types[last]
			if !has || tv.Value == nil {
				return false, false
			}
			return tv.Value.String() == "true", true
		}
		if isNilIdent(in.info, last) {
			return true, true
		}
		// a non-nil error: a package-level error value, a call constructing one, or a variable known non-nil is not decided
		// here — only syntactic constructors and package-level values count
		switch x := unparen(last).(type) {
		case *ast.CallExpr:
			return false, true
		case *ast.Ident:
			if v, isV := in.info.Uses[x].(*types.Var); isV && v.Parent() == v.Pkg().Scope() {
				return false, true
			}
			// a local error returned from inside `if err != nil { … }`
			if nonNilAt[r] != nil && nonNilAt[r][in.info.Uses[x]] {
				return false, true
			}
		case *ast.SelectorExpr:
			if v, isV := in.info.Uses[x.Sel].(*types.Var); isV && v.Pkg() != nil && v.Parent() == v.Pkg().Scope() {
				return false, true
			}
		}
		return false, false
	}
	ast.Inspect(fd.Body, func(n ast.Node) bool {
		switch x := n.(type) {
		case *ast.DeferStmt, *ast.GoStmt, *ast.LabeledStmt:
			okBody = false
		case *ast.BranchStmt:
			if x.Tok == token.GOTO || x.Label != nil {
				okBody = false
			}
		case *ast.FuncLit:
			return false
		case *ast.ReturnStmt:
			nret++
			if _, known := success(x); !known {
				okBody = false
			}
		case *ast.CallExpr:
			if builtinName(in.info, x) == "recover" {
				okBody = false
			}
			if c := callee(in.info, x); c != nil && c.Origin() == f {
				okBody = false
			}
		}
		return okBody
	})
	if !okBody || nret < 2 || len(fd.Body.List) == 0 {
		return nil, false
	}
	// an early success return `if c { …; return X, true }` followed by more statements is the same as putting those
	// statements into the else branch; afterwards every success return must be in tail position (nothing of h runs after it),
	// where it can be replaced by the assignment of its results
	isSucc := func(r *ast.ReturnStmt) bool { s, _ := success(r); return s }
	var elseify func(list []ast.Stmt) []ast.Stmt
	elseify = func(list []ast.Stmt) []ast.Stmt {
		for i, s := range list {
			ifs, isIf := s.(*ast.IfStmt)
			if !isIf || ifs.Else != nil || len(ifs.Body.List) == 0 || i == len(list)-1 {
				continue
			}
			if r, isR := ifs.Body.List[len(ifs.Body.List)-1].(*ast.ReturnStmt); isR && isSucc(r) {
				cpIf := *ifs
				cpIf.Else = &ast.BlockStmt{Lbrace: list[i+1].Pos(), List: elseify(list[i+1:]), Rbrace: list[len(list)-1].End()}
				return append(append([]ast.Stmt{}, list[:i]...), &cpIf)
			}
		}
		return list
	}
	bodyList := elseify(fd.Body.List)
	tail := map[*ast.ReturnStmt]bool{}
	var markTail func(list []ast.Stmt)
	markTail = func(list []ast.Stmt) {
		if len(list) == 0 {
			return
		}
		switch x := list[len(list)-1].(type) {
		case *ast.ReturnStmt:
			tail[x] = true
		case *ast.BlockStmt:
			markTail(x.List)
		case *ast.IfStmt:
			markTail(x.Body.List)
			switch e := x.Else.(type) {
			case *ast.BlockStmt:
				markTail(e.List)
			case *ast.IfStmt:
				markTail([]ast.Stmt{e})
			}
		}
	}
	markTail(bodyList)
	okTail, nSucc := true, 0
	for _, s := range bodyList {
		ast.Inspect(s, func(n ast.Node) bool {
			if _, isLit := n.(*ast.FuncLit); isLit {
				return false
			}
			if r, isR := n.(*ast.ReturnStmt); isR && isSucc(r) {
				nSucc++
				if !tail[r] {
					okTail = false
				}
			}
			return true
		})
	}
	if !okTail || nSucc == 0 {
		return nil, false
	}
	// bind parameters
	var pre []ast.Stmt
	subst := map[types.Object]ast.Expr{}
	bind := func(p *types.Var, arg ast.Expr) {
		if p.Name() == "_" || p.Name() == "" {
			return
		}
		if in.simpleArg(arg) && in.stableIn(arg, fd.Body) && !assignedIn(in.info, fd.Body, p) {
			subst[p] = arg
			return
		}
		id := &ast.Ident{NamePos: call.Pos(), Name: p.Name()}
		in.info.Defs[id] = p
		pre = append(pre, &ast.AssignStmt{Lhs: []ast.Expr{id}, TokPos: call.Pos(), Tok: token.DEFINE, Rhs: []ast.Expr{arg}})
	}
	if r := sig.Recv(); r != nil {
		sel := unparen(call.Fun).(*ast.SelectorExpr)
		recv := ast.Expr(sel.X)
		if s := in.info.Selections[sel]; s != nil && len(s.Index()) > 1 {
			recv = in.explicitRecv(sel, s)
		}
		bind(r, recv)
	}
	for i, a := range call.Args {
		bind(sig.Params().At(i), a)
	}
	failUses := map[types.Object]bool{}
	ast.Inspect(ifs.Body, func(n ast.Node) bool {
		if id, ok := n.(*ast.Ident); ok {
			if o := in.info.Uses[id]; o != nil {
				failUses[o] = true
			}
		}
		return true
	})
	cp := &copier{info: in.info, subst: subst}
	failCopier := &copier{info: in.info, subst: map[types.Object]ast.Expr{}}
	cp.onReturn = func(r *ast.ReturnStmt) ast.Stmt {
		var res []ast.Expr
		for _, e := range r.Results {
			res = append(res, cp.node(e).(ast.Expr))
		}
		var lhs []ast.Expr
		for _, l := range as.Lhs {
			lhs = append(lhs, failCopier.node(l).(ast.Expr))
		}
		asg := &ast.AssignStmt{Lhs: lhs, TokPos: r.Pos(), Tok: as.Tok, Rhs: res}
		if isSucc(r) {
			return asg
		}
		blk := &ast.BlockStmt{Lbrace: r.Pos(), Rbrace: r.End()}
		// on a failure path only the results FAIL looks at are assigned (the others are dead there, and assigning them would
		// hide that the variable has one meaningful definition)
		if len(res) == len(lhs) {
			var l2, r2 []ast.Expr
			for i, l := range as.Lhs {
				if o := objOf(in.info, l); o != nil && failUses[o] {
					l2 = append(l2, lhs[i])
					r2 = append(r2, res[i])
				}
			}
			asg.Lhs, asg.Rhs = l2, r2
		}
		if len(asg.Lhs) > 0 {
			blk.List = append(blk.List, asg)
		}
		for _, fs := range fail {
			blk.List = append(blk.List, failCopier.node(fs).(ast.Stmt))
		}
		return blk
	}
	out := pre
	for _, s := range bodyList {
		out = append(out, cp.node(s).(ast.Stmt))
	}
	in.count++
	return out, true
}

// explicitRecv: the receiver of a method promoted through embedded fields with those fields written out (x.m() → x.inner.m():
// x.inner), type-checked in place so that the new selectors carry real selections. nil when that fails.
func (in *inliner) explicitRecv(sel *ast.SelectorExpr, s *types.Selection) ast.Expr {
	if cached, ok := in.recvCache[sel]; ok {
		return cached
	}
	if in.recvCache == nil {
		in.recvCache = map[*ast.SelectorExpr]ast.Expr{}
	}
	in.recvCache[sel] = nil
	t := s.Recv()
	cur := ast.Expr(sel.X)
	idx := s.Index()
	for i := 0; i < len(idx)-1; i++ {
		for {
			if p, ok := t.Underlying().(*types.Pointer); ok {
				t = p.Elem()
				continue
			}
			break
		}
		st, ok := t.Underlying().(*types.Struct)
		if !ok {
			return nil
		}
		f := st.Field(idx[i])
		cur = &ast.SelectorExpr{X: cur, Sel: &ast.Ident{NamePos: sel.Sel.Pos(), Name: f.Name()}}
		t = f.Type()
	}
	if err := types.CheckExpr(in.p.Fset, in.p.Types, sel.Pos(), cur, in.info); err != nil {
		return nil
	}
	in.recvCache[sel] = cur
	return cur
}

// expandMulti expands `lhs… := h(args)` for a helper with several returns: `if c { …; return A }; rest` is `if c { …; return A }
// else { rest }`, and once every return is in tail position (nothing of h runs after it) each is replaced by the assignment of
// its results to lhs.
func (in *inliner) expandMulti(as *ast.AssignStmt, call *ast.CallExpr, fd *ast.FuncDecl, f *types.Func) ([]ast.Stmt, bool) {
	sig := f.Type().(*types.Signature)
	if sig.Results().Len() != len(as.Lhs) {
		return nil, false
	}
	var elseify func(list []ast.Stmt) []ast.Stmt
	elseify = func(list []ast.Stmt) []ast.Stmt {
		for i, s := range list {
			// switch { case …: return A; … } rest   ≡   the same switch with rest as its default clause
			if sw, isSw := s.(*ast.SwitchStmt); isSw && i < len(list)-1 {
				allRet, hasDefault := len(sw.Body.List) > 0, false
				for _, cl := range sw.Body.List {
					cc := cl.(*ast.CaseClause)
					if cc.List == nil {
						hasDefault = true
					}
					if len(cc.Body) == 0 {
						allRet = false
						continue
					}
					if _, isR := cc.Body[len(cc.Body)-1].(*ast.ReturnStmt); !isR {
						allRet = false
					}
					for _, st := range cc.Body {
						if _, isF := st.(*ast.BranchStmt); isF {
							allRet = false
						}
					}
				}
				if allRet && !hasDefault {
					cpSw := *sw
					def := &ast.CaseClause{Case: list[i+1].Pos(), Body: elseify(list[i+1:])}
					cpSw.Body = &ast.BlockStmt{Lbrace: sw.Body.Lbrace, List: append(append([]ast.Stmt{}, sw.Body.List...), def), Rbrace: sw.Body.Rbrace}
					return append(append([]ast.Stmt{}, list[:i]...), &cpSw)
				}
			}
			ifs, isIf := s.(*ast.IfStmt)
			if !isIf || ifs.Else != nil || len(ifs.Body.List) == 0 || i == len(list)-1 {
				continue
			}
			if _, isR := ifs.Body.List[len(ifs.Body.List)-1].(*ast.ReturnStmt); isR {
				cpIf := *ifs
				cpIf.Else = &ast.BlockStmt{Lbrace: list[i+1].Pos(), List: elseify(list[i+1:]), Rbrace: list[len(list)-1].End()}
				return append(append([]ast.Stmt{}, list[:i]...), &cpIf)
			}
		}
		return list
	}
	bodyList := elseify(fd.Body.List)
	tail := map[*ast.ReturnStmt]bool{}
	var markTail func(list []ast.Stmt)
	markTail = func(list []ast.Stmt) {
		if len(list) == 0 {
			return
		}
		switch x := list[len(list)-1].(type) {
		case *ast.ReturnStmt:
			tail[x] = true
		case *ast.BlockStmt:
			markTail(x.List)
		case *ast.IfStmt:
			markTail(x.Body.List)
			switch e := x.Else.(type) {
			case *ast.BlockStmt:
				markTail(e.List)
			case *ast.IfStmt:
				markTail([]ast.Stmt{e})
			}
		case *ast.SwitchStmt:
			hasDefault := false
			for _, cl := range x.Body.List {
				cc := cl.(*ast.CaseClause)
				if cc.List == nil {
					hasDefault = true
				}
				markTail(cc.Body)
			}
			_ = hasDefault
		}
	}
	markTail(bodyList)
	okTail, nret := true, 0
	for _, s := range bodyList {
		ast.Inspect(s, func(n ast.Node) bool {
			if _, isLit := n.(*ast.FuncLit); isLit {
				return false
			}
			if r, isR := n.(*ast.ReturnStmt); isR {
				nret++
				if !tail[r] || (len(r.Results) != len(as.Lhs) && !(len(r.Results) == 1 && singleCall(r.Results[0]) != nil)) {
					okTail = false
				}
			}
			return true
		})
	}
	if !okTail || nret == 0 {
		return nil, false
	}
	var pre []ast.Stmt
	subst := map[types.Object]ast.Expr{}
	inClosure := map[types.Object]bool{}
	ast.Inspect(fd.Body, func(n ast.Node) bool {
		if lit, isLit := n.(*ast.FuncLit); isLit {
			ast.Inspect(lit.Body, func(m ast.Node) bool {
				if id, isID := m.(*ast.Ident); isID {
					if o := in.info.Uses[id]; o != nil {
						inClosure[o] = true
					}
				}
				return true
			})
			return false
		}
		return true
	})
	bind := func(p *types.Var, arg ast.Expr) {
		if p.Name() == "_" || p.Name() == "" {
			return
		}
		if in.simpleArg(arg) && !inClosure[p] && in.stableIn(arg, fd.Body) && !assignedIn(in.info, fd.Body, p) {
			subst[p] = arg
			return
		}
		id := &ast.Ident{NamePos: call.Pos(), Name: p.Name()}
		in.info.Defs[id] = p
		pre = append(pre, &ast.AssignStmt{Lhs: []ast.Expr{id}, TokPos: call.Pos(), Tok: token.DEFINE, Rhs: []ast.Expr{arg}})
	}
	if r := sig.Recv(); r != nil {
		sel := unparen(call.Fun).(*ast.SelectorExpr)
		recv := ast.Expr(sel.X)
		if s := in.info.Selections[sel]; s != nil && len(s.Index()) > 1 {
			recv = in.explicitRecv(sel, s)
			if recv == nil {
				return nil, false
			}
		}
		bind(r, recv)
	}
	for i, a := range call.Args {
		bind(sig.Params().At(i), a)
	}
	cp := &copier{info: in.info, subst: subst}
	lhsCopier := &copier{info: in.info, subst: map[types.Object]ast.Expr{}}
	cp.onReturn = func(r *ast.ReturnStmt) ast.Stmt {
		var res, lhs []ast.Expr
		for _, e := range r.Results {
			res = append(res, cp.node(e).(ast.Expr))
		}
		for _, l := range as.Lhs {
			lhs = append(lhs, lhsCopier.node(l).(ast.Expr))
		}
		if len(lhs) == 0 {
			return &ast.EmptyStmt{Semicolon: r.Pos(), Implicit: true}
		}
		return &ast.AssignStmt{Lhs: lhs, TokPos: r.Pos(), Tok: as.Tok, Rhs: res}
	}
	out := pre
	for _, s := range bodyList {
		out = append(out, cp.node(s).(ast.Stmt))
	}
	in.count++
	return out, true
}

// movableDefers: the defer statements of fd that stand at the top level of its body and call a declared function or method
// with plain variables as arguments (receiver included) that are not assigned after the defer — such a call does the same
// when it is made at the end of the body instead. (Panics are outside what the rules talk about.)
func (in *inliner) movableDefers(fd *ast.FuncDecl) map[*ast.DeferStmt]bool {
	out := map[*ast.DeferStmt]bool{}
	for i, s := range fd.Body.List {
		d, ok := s.(*ast.DeferStmt)
		if !ok {
			continue
		}
		if _, isLit := unparen(d.Call.Fun).(*ast.FuncLit); isLit {
			continue
		}
		if callee(in.info, d.Call) == nil {
			continue
		}
		good := true
		var vars []types.Object
		collect := func(e ast.Expr) {
			switch x := unparen(e).(type) {
			case *ast.Ident:
				if o := in.info.Uses[x]; o != nil {
					if _, isV := o.(*types.Var); isV {
						vars = append(vars, o)
					}
				}
			case *ast.BasicLit:
			default:
				good = false
			}
		}
		for _, a := range d.Call.Args {
			collect(a)
		}
		if sel, isSel := unparen(d.Call.Fun).(*ast.SelectorExpr); isSel {
			if s := in.info.Selections[sel]; s != nil {
				// method call: the receiver must be a plain variable or a field path of one
				root := unparen(sel.X)
				for {
					if se, isSe := root.(*ast.SelectorExpr); isSe {
						root = unparen(se.X)
						continue
					}
					break
				}
				collect(root)
			}
		}
		for _, later := range fd.Body.List[i+1:] {
			for _, v := range vars {
				if assignedIn(in.info, later, v) {
					good = false
				}
			}
		}
		if good {
			out[d] = true
		}
	}
	return out
}

// pruneConst: after an expansion, `if c` whose condition folds to a constant — directly or through locals with one definition
// that fold (isDelta := DeltaTemporality == DeltaTemporality) — is replaced by the branch taken.
func (in *inliner) pruneConst(body *ast.BlockStmt) *ast.BlockStmt {
	// single-definition locals of the body
	defs := map[types.Object]ast.Expr{}
	cnt := map[types.Object]int{}
	ast.Inspect(body, func(n ast.Node) bool {
		switch s := n.(type) {
		case *ast.AssignStmt:
			for i, l := range s.Lhs {
				if o := objOf(in.info, l); o != nil {
					if len(s.Lhs) == len(s.Rhs) && (s.Tok == token.DEFINE || s.Tok == token.ASSIGN) {
						cnt[o]++
						defs[o] = s.Rhs[i]
					} else {
						cnt[o] += 2
					}
				}
			}
		case *ast.ValueSpec:
			// var v T is a definition too (the zero value): together with one later assignment the variable has two values
			for i, nm := range s.Names {
				if o := in.info.Defs[nm]; o != nil {
					if len(s.Values) == len(s.Names) {
						cnt[o]++
						defs[o] = s.Values[i]
					} else {
						cnt[o] += 2
					}
				}
			}
		case *ast.IncDecStmt:
			if o := objOf(in.info, s.X); o != nil {
				cnt[o] += 2
			}
		case *ast.UnaryExpr:
			if s.Op == token.AND {
				if o := objOf(in.info, s.X); o != nil {
					cnt[o] += 2
				}
			}
		case *ast.RangeStmt:
			for _, e := range []ast.Expr{s.Key, s.Value} {
				if e != nil {
					if o := objOf(in.info, e); o != nil {
						cnt[o] += 2
					}
				}
			}
		}
		return true
	})
	depth := 0
	var env Env
	env = func(e ast.Expr) (constant.Value, bool) {
		id, ok := unparen(e).(*ast.Ident)
		if !ok || depth > 4 {
			return nil, false
		}
		o := in.info.Uses[id]
		if o == nil || cnt[o] != 1 || defs[o] == nil || !definedIn(in.info, body, o) {
			return nil, false
		}
		depth++
		v, known := evalConst(in.info, defs[o], env)
		depth--
		return v, known
	}
	fold := func(cond ast.Expr) (bool, bool) {
		v, known := evalConst(in.info, cond, env)
		if !known || v.Kind() != constant.Bool {
			return false, false
		}
		return constant.BoolVal(v), true
	}
	var pruneStmt func(s ast.Stmt) ast.Stmt
	pruneList := func(list []ast.Stmt) ([]ast.Stmt, bool) {
		var out []ast.Stmt
		changed := false
		for _, s := range list {
			n := pruneStmt(s)
			if n != s {
				changed = true
			}
			if n != nil {
				out = append(out, n)
			}
		}
		return out, changed
	}
	pruneBlock := func(b *ast.BlockStmt) *ast.BlockStmt {
		if b == nil {
			return nil
		}
		list, changed := pruneList(b.List)
		if !changed {
			return b
		}
		return &ast.BlockStmt{Lbrace: b.Lbrace, List: list, Rbrace: b.Rbrace}
	}
	pruneStmt = func(s ast.Stmt) ast.Stmt {
		switch x := s.(type) {
		case *ast.BlockStmt:
			return pruneBlock(x)
		case *ast.IfStmt:
			if x.Init == nil {
				if val, known := fold(x.Cond); known {
					if val {
						return pruneBlock(x.Body)
					}
					if x.Else != nil {
						return pruneStmt(x.Else)
					}
					return &ast.EmptyStmt{Semicolon: x.Pos(), Implicit: true}
				}
			}
			nb := pruneBlock(x.Body)
			var ne ast.Stmt
			if x.Else != nil {
				ne = pruneStmt(x.Else)
			}
			if nb == x.Body && ne == x.Else {
				return x
			}
			cp := *x
			cp.Body, cp.Else = nb, ne
			return &cp
		case *ast.ForStmt:
			if nb := pruneBlock(x.Body); nb != x.Body {
				cp := *x
				cp.Body = nb
				return &cp
			}
		case *ast.RangeStmt:
			if nb := pruneBlock(x.Body); nb != x.Body {
				cp := *x
				cp.Body = nb
				return &cp
			}
		}
		return s
	}
	return pruneBlock(body)
}

// returnThrough: `return E[h(args)]` where the call of a new single-result helper h is the innermost operation of the returned
// expression (everything else in E is applied to its result or is a plain operand): h's body is spliced in and each of its
// `return A` becomes `return E[A]`. (return pb.delegateFor(psc).ShouldSample(p))
func (in *inliner) returnThrough(rs *ast.ReturnStmt, within *types.Func) ([]ast.Stmt, bool) {
	if len(rs.Results) == 0 {
		return nil, false
	}
	// the result that holds the call; the other results must be plain operands
	ri := -1
	for i, r := range rs.Results {
		has := false
		ast.Inspect(r, func(m ast.Node) bool {
			if _, isLit := m.(*ast.FuncLit); isLit {
				return false
			}
			if c, isC := m.(*ast.CallExpr); isC {
				if fd, _ := in.inlinable(c, within); fd != nil {
					has = true
				}
			}
			return !has
		})
		if has {
			if ri >= 0 {
				return nil, false
			}
			ri = i
		} else if !in.simpleArg(r) {
			return nil, false
		}
	}
	if ri < 0 {
		return nil, false
	}
	top := unparen(rs.Results[ri])
	if c, isC := top.(*ast.CallExpr); isC && len(rs.Results) == 1 {
		if fd, _ := in.inlinable(c, within); fd != nil {
			return nil, false // the whole result is the call: handled by the plain cases
		}
	}
	// candidate calls
	var target *ast.CallExpr
	n := 0
	ast.Inspect(top, func(m ast.Node) bool {
		switch x := m.(type) {
		case *ast.FuncLit:
			return false
		case *ast.CallExpr:
			if fd, f := in.inlinable(x, within); fd != nil && f.Type().(*types.Signature).Results().Len() == 1 {
				target = x
				n++
			}
		}
		return true
	})
	if n != 1 || target == nil {
		return nil, false
	}
	// every other call in E must contain the target (be applied to its result), every other leaf must be a simple operand
	okShape := true
	ast.Inspect(top, func(m ast.Node) bool {
		if m == ast.Node(target) {
			return false
		}
		switch x := m.(type) {
		case *ast.FuncLit:
			okShape = false
			return false
		case *ast.CallExpr:
			has := false
			ast.Inspect(x, func(k ast.Node) bool {
				if k == ast.Node(target) {
					has = true
				}
				return !has
			})
			if !has {
				okShape = false
			}
		}
		return okShape
	})
	if !okShape {
		return nil, false
	}
	fd, f := in.inlinable(target, within)
	if fd == nil {
		return nil, false
	}
	sig := f.Type().(*types.Signature)
	// parameters: substitution / binding as in expandMulti
	var pre []ast.Stmt
	subst := map[types.Object]ast.Expr{}
	inClosure := map[types.Object]bool{}
	ast.Inspect(fd.Body, func(m ast.Node) bool {
		if lit, isLit := m.(*ast.FuncLit); isLit {
			ast.Inspect(lit.Body, func(k ast.Node) bool {
				if id, isID := k.(*ast.Ident); isID {
					if o := in.info.Uses[id]; o != nil {
						inClosure[o] = true
					}
				}
				return true
			})
			return false
		}
		return true
	})
	bind := func(p *types.Var, arg ast.Expr) {
		if p.Name() == "_" || p.Name() == "" {
			return
		}
		if in.simpleArg(arg) && !inClosure[p] && !assignedIn(in.info, fd.Body, p) && in.stableIn(arg, fd.Body) {
			subst[p] = arg
			return
		}
		id := &ast.Ident{NamePos: target.Pos(), Name: p.Name()}
		in.info.Defs[id] = p
		pre = append(pre, &ast.AssignStmt{Lhs: []ast.Expr{id}, TokPos: target.Pos(), Tok: token.DEFINE, Rhs: []ast.Expr{arg}})
	}
	if r := sig.Recv(); r != nil {
		sel := unparen(target.Fun).(*ast.SelectorExpr)
		recv := ast.Expr(sel.X)
		if s := in.info.Selections[sel]; s != nil && len(s.Index()) > 1 {
			recv = in.explicitRecv(sel, s)
			if recv == nil {
				return nil, false
			}
		}
		bind(r, recv)
	}
	for i, a := range target.Args {
		bind(sig.Params().At(i), a)
	}
	// no deferred calls, no literal-level surprises: the body is spliced as it is
	hasDefer := false
	ast.Inspect(fd.Body, func(m ast.Node) bool {
		if _, isD := m.(*ast.DeferStmt); isD {
			hasDefer = true
		}
		return !hasDefer
	})
	if hasDefer {
		return nil, false
	}
	cp := &copier{info: in.info, subst: subst}
	cp.onReturn = func(r *ast.ReturnStmt) ast.Stmt {
		if len(r.Results) != 1 {
			return r
		}
		val := cp.node(r.Results[0]).(ast.Expr)
		outer := &copier{info: in.info, subst: map[types.Object]ast.Expr{}}
		outer.onCall = func(c *ast.CallExpr) ast.Expr {
			if c == target {
				p := &ast.ParenExpr{Lparen: c.Pos(), X: val, Rparen: c.End()}
				if tv, has := in.info.Types[c]; has {
					in.info.Types[p] = tv
				}
				return p
			}
			return nil
		}
		nr := *rs
		nr.Results = nil
		for i, res := range rs.Results {
			if i == ri {
				nr.Results = append(nr.Results, outer.node(res).(ast.Expr))
			} else {
				nr.Results = append(nr.Results, (&copier{info: in.info}).node(res).(ast.Expr))
			}
		}
		return &nr
	}
	out := pre
	for _, s := range fd.Body.List {
		out = append(out, cp.node(s).(ast.Stmt))
	}
	in.count++
	return out, true
}
