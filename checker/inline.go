package main

import (
	"go/ast"
	"go/token"
	"go/types"
	"os"
	"reflect"
	"sort"
	"sync"

	"golang.org/x/tools/go/packages"
)

// Normalisation by inlining (undoes "extract helper", "split into phases", "wrap the state in a small type with methods",
// "method ↔ function"): before a package is indexed, every call of a declared function of the same package that did NOT exist
// on the pinned tree (its name is not in the recorded list of that package's functions and it is not the renamed form of a
// recorded anchor) is replaced by the callee's body when that can be done exactly on the syntax tree:
//
//   - the callee has no defer, go, recover, label or goto, does not call itself, and never assigns its parameters;
//   - it has no return statement, or exactly one and that is its last statement;
//   - the call is a statement of its own, the single right-hand side of an assignment or definition (also as the init of an
//     if/switch), or the single operand of a return; or the callee's body is just `return expr` and every argument is simple —
//     then the call is replaced inside any expression;
//   - a method call is not promoted through an embedded field.
//
// Parameters are replaced by the argument expressions when those are simple (variables, selector paths, literals, &x, function
// literals) and the callee does not use the parameter inside a closure; otherwise the parameter's own object is bound by a
// definition `p := arg` in front of the body, which the single-definition folding of the evaluator sees through. The copied
// nodes get the type information of their originals (types.Info maps are extended), untouched sub-trees are shared.
//
// Functions of the pinned tree are never inlined, so on the unchanged tree this pass changes nothing.

var (
	normMu   sync.Mutex
	normDone = map[*packages.Package]bool{}
)

func resetNormalised() {
	normMu.Lock()
	normDone = map[*packages.Package]bool{}
	normMu.Unlock()
}

func recordAllFuncs(p *packages.Package, fs map[string]*FuncInfo) {
	if os.Getenv("VERIF_RECORD_ANCHORS") == "" {
		return
	}
	var names []string
	for n := range fs {
		names = append(names, n)
	}
	sort.Strings(names)
	recMu.Lock()
	if recorded.AllFuncs == nil {
		recorded.AllFuncs = map[string][]string{}
	}
	recorded.AllFuncs[p.PkgPath] = names
	recMu.Unlock()
}

type inliner struct {
	m     *Module
	p     *packages.Package
	info  *types.Info
	decls map[*types.Func]*ast.FuncDecl
	fresh map[*types.Func]bool // declared functions that are new with respect to the pinned tree
	state map[*types.Func]int  // 0 untouched, 1 in progress, 2 done
	count int
}

// normalisePackage rewrites the bodies of p's function declarations in place (once per loaded package).
func normalisePackage(m *Module, p *packages.Package) int {
	normMu.Lock()
	if normDone[p] {
		normMu.Unlock()
		return 0
	}
	normDone[p] = true
	normMu.Unlock()
	if os.Getenv("VERIF_NO_INLINE") != "" {
		return 0
	}
	tab := loadAnchors()
	pinned, ok := tab.AllFuncs[p.PkgPath]
	if !ok {
		return 0
	}
	known := map[string]bool{}
	for _, n := range pinned {
		known[n] = true
	}
	fs := pkgFuncs(m, p)
	in := &inliner{m: m, p: p, info: p.TypesInfo, decls: map[*types.Func]*ast.FuncDecl{}, fresh: map[*types.Func]bool{}, state: map[*types.Func]int{}}
	anyFresh := false
	for n, f := range fs {
		if f.Obj == nil {
			continue
		}
		in.decls[f.Obj] = f.Decl
		if !known[n] {
			in.fresh[f.Obj] = true
			anyFresh = true
		}
	}
	if !anyFresh {
		return 0
	}
	// the renamed form of a recorded anchor is not a new function
	for key := range tab.Funcs {
		pre := p.PkgPath + "|"
		if len(key) > len(pre) && key[:len(pre)] == pre {
			name := key[len(pre):]
			if _, present := fs[name]; present {
				continue
			}
			if f := lookupFunc(m, p, name); f != nil && f.Obj != nil {
				delete(in.fresh, f.Obj)
			}
		}
	}
	if len(in.fresh) == 0 {
		return 0
	}
	var objs []*types.Func
	for o := range in.decls {
		objs = append(objs, o)
	}
	sort.Slice(objs, func(i, j int) bool { return objs[i].Pos() < objs[j].Pos() })
	for _, o := range objs {
		in.normalise(o)
	}
	return in.count
}

func (in *inliner) normalise(o *types.Func) {
	if in.state[o] != 0 {
		return
	}
	in.state[o] = 1
	fd := in.decls[o]
	if fd != nil && fd.Body != nil {
		fd.Body = in.block(fd.Body, o)
	}
	in.state[o] = 2
}

// inlinable returns the declaration of the callee of call when it may be expanded here.
func (in *inliner) inlinable(call *ast.CallExpr, within *types.Func) (*ast.FuncDecl, *types.Func) {
	if call.Ellipsis.IsValid() {
		return nil, nil
	}
	f := callee(in.info, call)
	if f == nil {
		return nil, nil
	}
	f = f.Origin()
	if !in.fresh[f] || f == within {
		return nil, nil
	}
	fd := in.decls[f]
	if fd == nil || fd.Body == nil {
		return nil, nil
	}
	if in.state[f] == 1 {
		return nil, nil // recursion
	}
	in.normalise(f)
	sig := f.Type().(*types.Signature)
	if sig.Variadic() {
		return nil, nil
	}
	// promoted through an embedded field?
	if sig.Recv() != nil {
		sel, ok := unparen(call.Fun).(*ast.SelectorExpr)
		if !ok {
			return nil, nil
		}
		s := in.info.Selections[sel]
		if s == nil || s.Kind() != types.MethodVal || len(s.Index()) != 1 {
			return nil, nil
		}
	}
	if len(call.Args) != sig.Params().Len() {
		return nil, nil
	}
	if !in.simpleBody(fd, f) {
		return nil, nil
	}
	return fd, f
}

// simpleBody: no defer/go/recover/labels/goto/self call, parameters never assigned, at most one return and that one last.
func (in *inliner) simpleBody(fd *ast.FuncDecl, f *types.Func) bool {
	ok := true
	nret := 0
	sig := f.Type().(*types.Signature)
	params := map[types.Object]bool{}
	if r := sig.Recv(); r != nil {
		params[r] = true
	}
	for i := 0; i < sig.Params().Len(); i++ {
		params[sig.Params().At(i)] = true
	}
	ast.Inspect(fd.Body, func(n ast.Node) bool {
		switch x := n.(type) {
		case *ast.DeferStmt, *ast.GoStmt, *ast.LabeledStmt:
			ok = false
		case *ast.BranchStmt:
			if x.Tok == token.GOTO || x.Label != nil {
				ok = false
			}
		case *ast.FuncLit:
			// returns inside a literal are the literal's own
			ast.Inspect(x.Body, func(m ast.Node) bool {
				if c, isC := m.(*ast.CallExpr); isC && builtinName(in.info, c) == "recover" {
					ok = false
				}
				return true
			})
			return false
		case *ast.ReturnStmt:
			nret++
		case *ast.CallExpr:
			if builtinName(in.info, x) == "recover" {
				ok = false
			}
			if c := callee(in.info, x); c != nil && c.Origin() == f {
				ok = false
			}
		}
		return ok
	})
	if !ok {
		return false
	}
	for p := range params {
		if assignedIn(in.info, fd.Body, p) {
			return false
		}
	}
	if nret > 1 {
		return false
	}
	if nret == 1 {
		if len(fd.Body.List) == 0 {
			return false
		}
		if _, last := fd.Body.List[len(fd.Body.List)-1].(*ast.ReturnStmt); !last {
			return false
		}
	}
	// a function with results must end in its return
	if sig.Results().Len() > 0 && nret != 1 {
		return false
	}
	return true
}

// simpleArg: may be placed wherever the parameter was used without changing what is evaluated.
func (in *inliner) simpleArg(e ast.Expr) bool {
	switch x := unparen(e).(type) {
	case *ast.Ident, *ast.BasicLit, *ast.FuncLit:
		return true
	case *ast.SelectorExpr:
		return in.simpleArg(x.X)
	case *ast.StarExpr:
		return in.simpleArg(x.X)
	case *ast.UnaryExpr:
		return (x.Op == token.AND || x.Op == token.SUB || x.Op == token.NOT) && in.simpleArg(x.X)
	case *ast.IndexExpr:
		return in.simpleArg(x.X) && in.simpleArg(x.Index)
	case *ast.CallExpr:
		// conversion of a simple expression
		if tv, ok := in.info.Types[x.Fun]; ok && tv.IsType() && len(x.Args) == 1 {
			return in.simpleArg(x.Args[0])
		}
	}
	return false
}

// expansion of one call: statements to put in front, and the result expressions
func (in *inliner) expand(call *ast.CallExpr, fd *ast.FuncDecl, f *types.Func, exprOnly bool) (pre []ast.Stmt, results []ast.Expr, ok bool) {
	sig := f.Type().(*types.Signature)
	subst := map[types.Object]ast.Expr{}
	// parameters used inside a closure of the callee are bound, not substituted
	inClosure := map[types.Object]bool{}
	ast.Inspect(fd.Body, func(n ast.Node) bool {
		if lit, isLit := n.(*ast.FuncLit); isLit {
			ast.Inspect(lit.Body, func(m ast.Node) bool {
				if id, isID := m.(*ast.Ident); isID {
					if o := in.info.Uses[id]; o != nil {
						inClosure[o] = true
					}
				}
				return true
			})
			return false
		}
		return true
	})
	bind := func(p *types.Var, arg ast.Expr) bool {
		if p.Name() == "_" || p.Name() == "" {
			return true
		}
		if in.simpleArg(arg) && !inClosure[p] {
			subst[p] = arg
			return true
		}
		if exprOnly {
			return false
		}
		id := &ast.Ident{NamePos: call.Pos(), Name: p.Name()}
		in.info.Defs[id] = p
		pre = append(pre, &ast.AssignStmt{Lhs: []ast.Expr{id}, TokPos: call.Pos(), Tok: token.DEFINE, Rhs: []ast.Expr{arg}})
		return true
	}
	if r := sig.Recv(); r != nil {
		sel := unparen(call.Fun).(*ast.SelectorExpr)
		recv := ast.Expr(sel.X)
		_, wantPtr := r.Type().(*types.Pointer)
		if tv, has := in.info.Types[recv]; has {
			_, isPtr := tv.Type.Underlying().(*types.Pointer)
			if wantPtr && !isPtr {
				u := &ast.UnaryExpr{OpPos: recv.Pos(), Op: token.AND, X: recv}
				in.info.Types[u] = types.TypeAndValue{Type: types.NewPointer(tv.Type)}
				recv = u
			} else if !wantPtr && isPtr {
				s := &ast.StarExpr{Star: recv.Pos(), X: recv}
				in.info.Types[s] = types.TypeAndValue{Type: tv.Type.Underlying().(*types.Pointer).Elem()}
				recv = s
			}
		}
		if !bind(r, recv) {
			return nil, nil, false
		}
	}
	for i, a := range call.Args {
		if !bind(sig.Params().At(i), a) {
			return nil, nil, false
		}
	}
	cp := &copier{info: in.info, subst: subst}
	body := fd.Body.List
	var ret *ast.ReturnStmt
	if n := len(body); n > 0 {
		if r, isRet := body[n-1].(*ast.ReturnStmt); isRet {
			ret = r
			body = body[:n-1]
		}
	}
	if exprOnly && len(body) > 0 {
		return nil, nil, false
	}
	for _, s := range body {
		pre = append(pre, cp.node(s).(ast.Stmt))
	}
	if ret != nil {
		if len(ret.Results) == 0 {
			// named results
			for i := 0; i < sig.Results().Len(); i++ {
				rv := sig.Results().At(i)
				id := &ast.Ident{NamePos: ret.Pos(), Name: rv.Name()}
				in.info.Uses[id] = rv
				in.info.Types[id] = types.TypeAndValue{Type: rv.Type()}
				results = append(results, id)
			}
		} else {
			for _, r := range ret.Results {
				results = append(results, cp.node(r).(ast.Expr))
			}
		}
	}
	in.count++
	return pre, results, true
}

// block rewrites a statement list.
func (in *inliner) block(b *ast.BlockStmt, within *types.Func) *ast.BlockStmt {
	if b == nil {
		return nil
	}
	list, changed := in.stmts(b.List, within)
	if !changed {
		return b
	}
	return &ast.BlockStmt{Lbrace: b.Lbrace, List: list, Rbrace: b.Rbrace}
}

func (in *inliner) stmts(list []ast.Stmt, within *types.Func) ([]ast.Stmt, bool) {
	var out []ast.Stmt
	changed := false
	for _, s := range list {
		repl, ch := in.stmt(s, within)
		if ch {
			changed = true
		}
		out = append(out, repl...)
	}
	return out, changed
}

// callOf: the statement-level call forms.
func singleCall(e ast.Expr) *ast.CallExpr {
	c, _ := unparen(e).(*ast.CallExpr)
	return c
}

func (in *inliner) stmt(s ast.Stmt, within *types.Func) ([]ast.Stmt, bool) {
	switch x := s.(type) {
	case *ast.ExprStmt:
		if call := singleCall(x.X); call != nil {
			if fd, f := in.inlinable(call, within); fd != nil {
				if pre, res, ok := in.expand(call, fd, f, false); ok {
					// results are discarded; keep a returned call for its effects
					for _, r := range res {
						if c := singleCall(r); c != nil {
							pre = append(pre, &ast.ExprStmt{X: c})
						}
					}
					if len(pre) == 0 {
						pre = append(pre, &ast.EmptyStmt{Semicolon: s.Pos(), Implicit: true})
					}
					return pre, true
				}
			}
		}
	case *ast.AssignStmt:
		if len(x.Rhs) == 1 {
			if call := singleCall(x.Rhs[0]); call != nil {
				if fd, f := in.inlinable(call, within); fd != nil {
					if pre, res, ok := in.expand(call, fd, f, false); ok && len(res) == len(x.Lhs) {
						cp := *x
						cp.Rhs = res
						return append(pre, &cp), true
					}
				}
			}
		}
	case *ast.ReturnStmt:
		if len(x.Results) == 1 {
			if call := singleCall(x.Results[0]); call != nil {
				if fd, f := in.inlinable(call, within); fd != nil {
					if pre, res, ok := in.expand(call, fd, f, false); ok && len(res) > 0 {
						cp := *x
						cp.Results = res
						return append(pre, &cp), true
					}
				}
			}
		}
	case *ast.IfStmt:
		var pre []ast.Stmt
		cp := *x
		changed := false
		if x.Init != nil {
			if repl, ch := in.stmt(x.Init, within); ch {
				pre = append(pre, repl...)
				cp.Init = nil
				changed = true
			}
		}
		if nb := in.block(x.Body, within); nb != x.Body {
			cp.Body = nb
			changed = true
		}
		if x.Else != nil {
			if repl, ch := in.stmt(x.Else, within); ch {
				if len(repl) == 1 {
					cp.Else = repl[0]
				} else {
					cp.Else = &ast.BlockStmt{Lbrace: x.Else.Pos(), List: repl, Rbrace: x.Else.End() - 1}
				}
				changed = true
			}
		}
		if ne, ch := in.expr(x.Cond, within); ch {
			cp.Cond = ne
			changed = true
		}
		if changed {
			return append(pre, &cp), true
		}
		return []ast.Stmt{s}, false
	case *ast.BlockStmt:
		if nb := in.block(x, within); nb != x {
			return []ast.Stmt{nb}, true
		}
		return []ast.Stmt{s}, false
	case *ast.ForStmt:
		if nb := in.block(x.Body, within); nb != x.Body {
			cp := *x
			cp.Body = nb
			return []ast.Stmt{&cp}, true
		}
		return []ast.Stmt{s}, false
	case *ast.RangeStmt:
		if nb := in.block(x.Body, within); nb != x.Body {
			cp := *x
			cp.Body = nb
			return []ast.Stmt{&cp}, true
		}
		return []ast.Stmt{s}, false
	case *ast.SwitchStmt:
		var pre []ast.Stmt
		cp := *x
		changed := false
		if x.Init != nil {
			if repl, ch := in.stmt(x.Init, within); ch {
				pre = append(pre, repl...)
				cp.Init = nil
				changed = true
			}
		}
		if nb, ch := in.clauses(x.Body, within); ch {
			cp.Body = nb
			changed = true
		}
		if changed {
			return append(pre, &cp), true
		}
		return []ast.Stmt{s}, false
	case *ast.TypeSwitchStmt:
		if nb, ch := in.clauses(x.Body, within); ch {
			cp := *x
			cp.Body = nb
			return []ast.Stmt{&cp}, true
		}
		return []ast.Stmt{s}, false
	case *ast.SelectStmt:
		if nb, ch := in.clauses(x.Body, within); ch {
			cp := *x
			cp.Body = nb
			return []ast.Stmt{&cp}, true
		}
		return []ast.Stmt{s}, false
	}
	// expression-level expansion inside any other statement
	if ns, ch := in.exprsIn(s, within); ch {
		return []ast.Stmt{ns}, true
	}
	return []ast.Stmt{s}, false
}

func (in *inliner) clauses(b *ast.BlockStmt, within *types.Func) (*ast.BlockStmt, bool) {
	var out []ast.Stmt
	changed := false
	for _, cl := range b.List {
		switch cc := cl.(type) {
		case *ast.CaseClause:
			if list, ch := in.stmts(cc.Body, within); ch {
				cp := *cc
				cp.Body = list
				if in.info.Implicits[cc] != nil {
					in.info.Implicits[&cp] = in.info.Implicits[cc]
				}
				out = append(out, &cp)
				changed = true
				continue
			}
		case *ast.CommClause:
			if list, ch := in.stmts(cc.Body, within); ch {
				cp := *cc
				cp.Body = list
				out = append(out, &cp)
				changed = true
				continue
			}
		}
		out = append(out, cl)
	}
	if !changed {
		return b, false
	}
	return &ast.BlockStmt{Lbrace: b.Lbrace, List: out, Rbrace: b.Rbrace}, true
}

// expr replaces calls of expression-only callees (`return e`) inside e.
func (in *inliner) expr(e ast.Expr, within *types.Func) (ast.Expr, bool) {
	if e == nil {
		return e, false
	}
	found := false
	ast.Inspect(e, func(n ast.Node) bool {
		if _, isLit := n.(*ast.FuncLit); isLit {
			return false
		}
		if c, ok := n.(*ast.CallExpr); ok {
			if fd, _ := in.inlinable(c, within); fd != nil && len(fd.Body.List) == 1 {
				found = true
			}
		}
		return !found
	})
	if !found {
		return e, false
	}
	cp := &copier{info: in.info, subst: map[types.Object]ast.Expr{}, onCall: func(c *ast.CallExpr) ast.Expr {
		fd, f := in.inlinable(c, within)
		if fd == nil || len(fd.Body.List) != 1 {
			return nil
		}
		_, res, ok := in.expand(c, fd, f, true)
		if !ok || len(res) != 1 {
			return nil
		}
		p := &ast.ParenExpr{Lparen: c.Pos(), X: res[0], Rparen: c.End()}
		if tv, has := in.info.Types[c]; has {
			in.info.Types[p] = tv
		}
		return p
	}}
	return cp.node(e).(ast.Expr), true
}

// exprsIn: expression-level expansion in the expressions of a simple statement.
func (in *inliner) exprsIn(s ast.Stmt, within *types.Func) (ast.Stmt, bool) {
	switch x := s.(type) {
	case *ast.AssignStmt:
		cp := *x
		changed := false
		cp.Rhs = append([]ast.Expr{}, x.Rhs...)
		for i, r := range x.Rhs {
			if ne, ch := in.expr(r, within); ch {
				cp.Rhs[i] = ne
				changed = true
			}
		}
		if changed {
			return &cp, true
		}
	case *ast.ReturnStmt:
		cp := *x
		changed := false
		cp.Results = append([]ast.Expr{}, x.Results...)
		for i, r := range x.Results {
			if ne, ch := in.expr(r, within); ch {
				cp.Results[i] = ne
				changed = true
			}
		}
		if changed {
			return &cp, true
		}
	case *ast.ExprStmt:
		if ne, ch := in.expr(x.X, within); ch {
			cp := *x
			cp.X = ne
			return &cp, true
		}
	case *ast.SendStmt:
		if ne, ch := in.expr(x.Value, within); ch {
			cp := *x
			cp.Value = ne
			return &cp, true
		}
	case *ast.IncDecStmt, *ast.DeclStmt:
	}
	return s, false
}

// copier deep-copies a sub-tree, replacing identifiers that denote substituted objects and propagating the type information of
// every copied node.
type copier struct {
	info   *types.Info
	subst  map[types.Object]ast.Expr
	onCall func(*ast.CallExpr) ast.Expr
}

var astNodeType = reflect.TypeOf((*ast.Node)(nil)).Elem()

func (cp *copier) node(n ast.Node) ast.Node {
	if n == nil {
		return nil
	}
	rv := reflect.ValueOf(n)
	if rv.Kind() == reflect.Ptr && rv.IsNil() {
		return n
	}
	if id, ok := n.(*ast.Ident); ok {
		if o := cp.info.Uses[id]; o != nil {
			if e, has := cp.subst[o]; has {
				return e
			}
		}
		return cp.ident(id)
	}
	if c, ok := n.(*ast.CallExpr); ok && cp.onCall != nil {
		if e := cp.onCall(c); e != nil {
			return e
		}
	}
	if rv.Kind() != reflect.Ptr || rv.Elem().Kind() != reflect.Struct {
		return n
	}
	old := rv.Elem()
	nv := reflect.New(old.Type())
	nv.Elem().Set(old)
	for i := 0; i < old.NumField(); i++ {
		f := nv.Elem().Field(i)
		if !f.CanSet() {
			continue
		}
		switch f.Kind() {
		case reflect.Interface:
			if f.IsNil() {
				continue
			}
			if sub, ok := f.Interface().(ast.Node); ok {
				r := cp.node(sub)
				if r != nil && reflect.TypeOf(r).AssignableTo(f.Type()) {
					f.Set(reflect.ValueOf(r))
				}
			}
		case reflect.Ptr:
			if f.IsNil() {
				continue
			}
			if id, ok := f.Interface().(*ast.Ident); ok {
				// a field of static type *ast.Ident (selector name, label, field name): copied, never substituted
				f.Set(reflect.ValueOf(cp.ident(id)))
				continue
			}
			if sub, ok := f.Interface().(ast.Node); ok {
				r := cp.node(sub)
				if r != nil && reflect.TypeOf(r).AssignableTo(f.Type()) {
					f.Set(reflect.ValueOf(r))
				}
			}
		case reflect.Slice:
			if f.IsNil() || f.Len() == 0 {
				continue
			}
			et := f.Type().Elem()
			if !(et.Implements(astNodeType) || (et.Kind() == reflect.Interface && et.Implements(astNodeType))) {
				continue
			}
			ns := reflect.MakeSlice(f.Type(), f.Len(), f.Len())
			for j := 0; j < f.Len(); j++ {
				el := f.Index(j)
				ns.Index(j).Set(el)
				if (el.Kind() == reflect.Interface || el.Kind() == reflect.Ptr) && !el.IsNil() {
					if id, isID := el.Interface().(*ast.Ident); isID && et.Kind() == reflect.Ptr {
						ns.Index(j).Set(reflect.ValueOf(cp.ident(id)))
						continue
					}
					if sub, ok := el.Interface().(ast.Node); ok {
						r := cp.node(sub)
						if r != nil && reflect.TypeOf(r).AssignableTo(et) {
							ns.Index(j).Set(reflect.ValueOf(r))
						}
					}
				}
			}
			f.Set(ns)
		}
	}
	out := nv.Interface().(ast.Node)
	cp.copyInfo(n, out)
	return out
}

func (cp *copier) ident(id *ast.Ident) *ast.Ident {
	nid := *id
	if o := cp.info.Uses[id]; o != nil {
		cp.info.Uses[&nid] = o
	}
	if o, has := cp.info.Defs[id]; has {
		cp.info.Defs[&nid] = o
	}
	if tv, has := cp.info.Types[id]; has {
		cp.info.Types[&nid] = tv
	}
	if inst, has := cp.info.Instances[id]; has {
		cp.info.Instances[&nid] = inst
	}
	return &nid
}

func (cp *copier) copyInfo(old, nw ast.Node) {
	if oe, ok := old.(ast.Expr); ok {
		if tv, has := cp.info.Types[oe]; has {
			cp.info.Types[nw.(ast.Expr)] = tv
		}
	}
	switch o := old.(type) {
	case *ast.SelectorExpr:
		if s, has := cp.info.Selections[o]; has {
			cp.info.Selections[nw.(*ast.SelectorExpr)] = s
		}
	case *ast.CaseClause:
		if im, has := cp.info.Implicits[o]; has {
			cp.info.Implicits[nw] = im
		}
	}
}
