package main

import (
	"go/ast"
	"go/constant"
	"go/token"
	"go/types"
	"sync"
)

// E2 — dtable: exact evaluation of the comparison/boolean fragment under an
// assignment of constants to chosen subject expressions, and reachability of
// flow-graph vertices under that assignment (three-valued: a condition that
// cannot be folded lets both edges through).

// Env substitutes a constant for a subject expression (or says it has none).
type Env func(e ast.Expr) (constant.Value, bool)

func evalConst(info *types.Info, e ast.Expr, env Env) (constant.Value, bool) {
	e = unparen(e)
	if env != nil {
		if v, ok := env(e); ok {
			return v, true
		}
	}
	if tv, ok := info.Types[e]; ok && tv.Value != nil {
		return tv.Value, true
	}
	switch x := e.(type) {
	case *ast.CallExpr:
		// slices.Contains([]T{c1, c2, …}, X) with constant elements: membership of X's value (exact)
		if isCallTo(info, x, "slices.Contains") && len(x.Args) == 2 {
			if cl, isLit := unparen(x.Args[0]).(*ast.CompositeLit); isLit {
				v, known := evalConst(info, x.Args[1], env)
				if known {
					allConst, hit := true, false
					for _, el := range cl.Elts {
						ev, ok := evalConst(info, el, env)
						if !ok {
							allConst = false
							break
						}
						if ev.Kind() == v.Kind() && constant.Compare(ev, token.EQL, v) {
							hit = true
						}
					}
					if allConst {
						return constant.MakeBool(hit), true
					}
				}
			}
		}
	case *ast.UnaryExpr:
		v, ok := evalConst(info, x.X, env)
		if !ok {
			return nil, false
		}
		switch x.Op {
		case token.NOT:
			if v.Kind() == constant.Bool {
				return constant.MakeBool(!constant.BoolVal(v)), true
			}
		case token.SUB, token.ADD, token.XOR:
			if v.Kind() == constant.Int || v.Kind() == constant.Float {
				return constant.UnaryOp(x.Op, v, 0), true
			}
		}
	case *ast.BinaryExpr:
		switch x.Op {
		case token.LAND, token.LOR:
			l, lok := evalConst(info, x.X, env)
			r, rok := evalConst(info, x.Y, env)
			if lok && l.Kind() == constant.Bool {
				lb := constant.BoolVal(l)
				if x.Op == token.LAND && !lb {
					return constant.MakeBool(false), true
				}
				if x.Op == token.LOR && lb {
					return constant.MakeBool(true), true
				}
				if rok && r.Kind() == constant.Bool {
					return r, true
				}
				return nil, false
			}
			if rok && r.Kind() == constant.Bool {
				rb := constant.BoolVal(r)
				if x.Op == token.LAND && !rb {
					return constant.MakeBool(false), true
				}
				if x.Op == token.LOR && rb {
					return constant.MakeBool(true), true
				}
			}
			return nil, false
		}
		l, lok := evalConst(info, x.X, env)
		r, rok := evalConst(info, x.Y, env)
		if !lok || !rok {
			return nil, false
		}
		switch x.Op {
		case token.EQL, token.NEQ, token.LSS, token.LEQ, token.GTR, token.GEQ:
			if l.Kind() == constant.Bool && r.Kind() == constant.Bool {
				if x.Op == token.EQL {
					return constant.MakeBool(constant.BoolVal(l) == constant.BoolVal(r)), true
				}
				if x.Op == token.NEQ {
					return constant.MakeBool(constant.BoolVal(l) != constant.BoolVal(r)), true
				}
				return nil, false
			}
			if l.Kind() == constant.String && r.Kind() != constant.String || r.Kind() == constant.String && l.Kind() != constant.String {
				return nil, false
			}
			return constant.MakeBool(constant.Compare(l, x.Op, r)), true
		case token.ADD, token.SUB, token.MUL, token.AND, token.OR, token.XOR, token.AND_NOT:
			if (l.Kind() == constant.Int || l.Kind() == constant.Float || l.Kind() == constant.String) && l.Kind() == r.Kind() {
				return constant.BinaryOp(l, x.Op, r), true
			}
		}
	case *ast.IndexExpr:
		// T[k] for a package-level table of constants that is new with respect to the pinned tree and written nowhere else
		// (registered by the normalisation pass, tables.go): the entry, or the zero value when k is not a key
		if v, ok := objOf(info, x.X).(*types.Var); ok {
			if tbl := constTableOf(v); tbl != nil {
				k, known := evalConst(info, x.Index, env)
				if !known {
					return nil, false
				}
				// an array indexed outside its length panics: there is no value to fold
				if arr, isArr := v.Type().Underlying().(*types.Array); isArr && k.Kind() == constant.Int {
					if ki, exact := constant.Int64Val(k); !exact || ki < 0 || ki >= arr.Len() {
						return nil, false
					}
				}
				for i, key := range tbl.keys {
					if key.Kind() == k.Kind() && constant.Compare(key, token.EQL, k) {
						return tbl.vals[i], true
					}
				}
				return tbl.zero, tbl.zero != nil
			}
		}
	case *ast.SelectorExpr:
		// v.f of a local struct built by one composite literal
		if g := fgOfExpr(x); g != nil {
			if def, _ := g.FieldDef(x); def != nil {
				return evalConst(info, def, env)
			}
			// v.f with v := T[k] for a new, immutable table of struct literals: the field of the entry k selects (zero when k
			// is not a key or the entry does not mention the field)
			if fv, _ := fieldOf(info, x); fv != nil {
				def := g.LocalDef(objOf(info, x.X))
				if def == nil {
					// the lookup may stand outside the piece of the function this graph covers (recorded by the normalisation pass)
					def = tableLookupDefOf(objOf(info, x.X))
				}
				if def != nil {
					if ie, isIE := unparen(def).(*ast.IndexExpr); isIE {
						if tv, isV := objOf(info, ie.X).(*types.Var); isV {
							if st := structTableOf(tv); st != nil {
								k, known := evalConst(info, ie.Index, env)
								if !known {
									return nil, false
								}
								var entry *ast.CompositeLit
								for i, key := range st.keys {
									if key.Kind() == k.Kind() && constant.Compare(key, token.EQL, k) {
										entry = st.vals[i]
									}
								}
								if entry != nil {
									for _, el := range entry.Elts {
										kv, isKV := el.(*ast.KeyValueExpr)
										if !isKV {
											return nil, false
										}
										if id, isID := kv.Key.(*ast.Ident); isID && info.Uses[id] == types.Object(fv) {
											return evalConst(info, kv.Value, env)
										}
									}
								}
								if z := zeroLit(info, fv.Type(), x.Pos()); z != nil {
									return evalConst(info, z, env)
								}
							}
						}
					}
				}
			}
		}
	}
	return nil, false
}

type structTable struct {
	keys []constant.Value
	vals []*ast.CompositeLit
}

var structTables = map[*types.Var]*structTable{}

// tableLookupDefs: local variable → the T[k] it is defined by (its only definition), for new immutable tables
var tableLookupDefs = map[types.Object]ast.Expr{}

func tableLookupDefOf(o types.Object) ast.Expr {
	if o == nil {
		return nil
	}
	constTablesMu.Lock()
	defer constTablesMu.Unlock()
	return tableLookupDefs[o]
}

func structTableOf(v *types.Var) *structTable {
	constTablesMu.Lock()
	defer constTablesMu.Unlock()
	return structTables[v]
}

// constTables: see tables.go
type constTable struct {
	keys, vals []constant.Value
	zero       constant.Value
}

var (
	constTablesMu sync.Mutex
	constTables   = map[*types.Var]*constTable{}
	// exprOwner: function-graph lookup for selector expressions that FieldDef may resolve (filled lazily per graph)
	fgByBody sync.Map // *ast.BlockStmt → *FG
)

func constTableOf(v *types.Var) *constTable {
	constTablesMu.Lock()
	defer constTablesMu.Unlock()
	return constTables[v]
}

// fgOfExpr finds the flow graph whose function body contains e (graphs register themselves when they build their local
// definitions).
func fgOfExpr(e ast.Expr) *FG {
	var found *FG
	fgByBody.Range(func(k, v any) bool {
		g := v.(*FG)
		if containsNoLitOrIn(k.(*ast.BlockStmt), e) {
			found = g
			return false
		}
		return true
	})
	return found
}

func containsNoLitOrIn(root ast.Node, target ast.Node) bool {
	found := false
	ast.Inspect(root, func(n ast.Node) bool {
		if n == target {
			found = true
		}
		return !found
	})
	return found
}

// edgeOpen: can edge e be taken under env? (unknown ⇒ yes)
func edgeOpen(info *types.Info, e *GEdge, env Env) bool {
	if e.Cond == nil {
		return true
	}
	var v constant.Value
	var ok bool
	if e.Tag != nil {
		t, tok := evalConst(info, e.Tag, env)
		c, cok := evalConst(info, e.Cond, env)
		if !tok || !cok || t.Kind() != c.Kind() {
			return true
		}
		if t.Kind() == constant.Bool {
			v, ok = constant.MakeBool(constant.BoolVal(t) == constant.BoolVal(c)), true
		} else {
			v, ok = constant.MakeBool(constant.Compare(t, token.EQL, c)), true
		}
	} else {
		v, ok = evalConst(info, e.Cond, env)
	}
	if !ok || v.Kind() != constant.Bool {
		return true
	}
	return constant.BoolVal(v) == (e.Pol > 0)
}

// ReachUnder returns the vertices reachable from entry under env.
func (g *FG) ReachUnder(env Env) map[*GNode]bool {
	info := g.Info
	env = g.withLocals(env)
	seen, _ := g.ReachFromEntry(nil, func(e *GEdge) bool { return !edgeOpen(info, e, env) })
	return seen
}

// withLocals extends env through locals that have exactly one plain definition in the function (x := expr / var x = expr
// with no other assignment, increment or address-taking): such an identifier folds to the value of its definition.
// This keeps the tables exact when a sub-expression is hoisted into a local.
func (g *FG) withLocals(env Env) Env {
	g.buildLocalDefs()
	depth := 0
	var ext Env
	ext = func(e ast.Expr) (constant.Value, bool) {
		if v, ok := env(e); ok {
			return v, true
		}
		if id, ok := e.(*ast.Ident); ok && depth < 6 {
			if o := g.Info.Uses[id]; o != nil {
				if def, has := g.localDefs[o]; has {
					depth++
					v, ok := evalConst(g.Info, def, ext)
					depth--
					return v, ok
				}
				// x, y := helper(args): the i-th result of a small pure helper evaluated under the same facts
				if td, has := g.tupleDefs()[o]; has {
					depth++
					vals, ok := evalPureCall(g.Info, td.call, ext, 2)
					depth--
					if ok && td.i < len(vals) {
						return vals[td.i], true
					}
				}
			}
		}
		if call, ok := e.(*ast.CallExpr); ok && depth < 6 {
			depth++
			vals, ok := evalPureCall(g.Info, call, ext, 2)
			depth--
			if ok && len(vals) == 1 {
				return vals[0], true
			}
		}
		return nil, false
	}
	return ext
}

// tupleDefs: locals defined exactly once, by a tuple assignment from a call (x, ok := f(…)).
func (g *FG) tupleDefs() map[types.Object]struct {
	call *ast.CallExpr
	i    int
} {
	out := map[types.Object]struct {
		call *ast.CallExpr
		i    int
	}{}
	cnt := map[types.Object]int{}
	ast.Inspect(g.F.Body(), func(n ast.Node) bool {
		switch s := n.(type) {
		case *ast.AssignStmt:
			for i, l := range s.Lhs {
				o := objOf(g.Info, l)
				if o == nil {
					continue
				}
				cnt[o]++
				if len(s.Lhs) > 1 && len(s.Rhs) == 1 {
					if call, ok := unparen(s.Rhs[0]).(*ast.CallExpr); ok {
						out[o] = struct {
							call *ast.CallExpr
							i    int
						}{call, i}
					}
				}
			}
		case *ast.IncDecStmt:
			if o := objOf(g.Info, s.X); o != nil {
				cnt[o] += 2
			}
		case *ast.UnaryExpr:
			if s.Op == token.AND {
				if o := objOf(g.Info, s.X); o != nil {
					cnt[o] += 2
				}
			}
		}
		return true
	})
	for o, c := range cnt {
		if c != 1 {
			delete(out, o)
		}
	}
	return out
}

// evalPureCall folds a call of a small pure declared function: no loops, no assignments except := of locals, no calls other than
// to such functions; every argument folds under env; exactly one return is reachable with the parameters bound, and all its
// results fold. Returns the result values.
func evalPureCall(info *types.Info, call *ast.CallExpr, env Env, depth int) ([]constant.Value, bool) {
	if depth <= 0 {
		return nil, false
	}
	h := declOf(callee(info, call))
	if h == nil || h.Body() == nil {
		return nil, false
	}
	sig := h.Obj.Type().(*types.Signature)
	if sig.Recv() != nil || sig.Variadic() || sig.Params().Len() != len(call.Args) {
		return nil, false
	}
	pure := true
	ast.Inspect(h.Body(), func(n ast.Node) bool {
		switch s := n.(type) {
		case *ast.ForStmt, *ast.RangeStmt, *ast.GoStmt, *ast.DeferStmt, *ast.SendStmt, *ast.FuncLit, *ast.IncDecStmt:
			pure = false
		case *ast.AssignStmt:
			if s.Tok != token.DEFINE {
				pure = false
			}
		case *ast.CallExpr:
			if tv, ok := h.Info().Types[s.Fun]; ok && tv.IsType() {
				return true
			}
			if declOf(callee(h.Info(), s)) == nil {
				pure = false
			}
		}
		return pure
	})
	if !pure {
		return nil, false
	}
	bind := map[types.Object]constant.Value{}
	for i, a := range call.Args {
		v, ok := evalConst(info, a, env)
		if !ok {
			return nil, false
		}
		bind[sig.Params().At(i)] = v
	}
	hg := NewFG(h)
	henv := func(e ast.Expr) (constant.Value, bool) {
		if id, ok := unparen(e).(*ast.Ident); ok {
			if v, has := bind[h.Info().Uses[id]]; has {
				return v, true
			}
		}
		return nil, false
	}
	seen := hg.ReachUnder(henv)
	full := hg.withLocals(henv)
	var ret *ast.ReturnStmt
	n := 0
	for x := range seen {
		if rs, ok := x.N.(*ast.ReturnStmt); ok {
			ret = rs
			n++
		}
	}
	if n != 1 || ret == nil || len(ret.Results) != sig.Results().Len() {
		return nil, false
	}
	var out []constant.Value
	for _, r := range ret.Results {
		v, ok := evalConst(h.Info(), r, full)
		if !ok {
			return nil, false
		}
		out = append(out, v)
	}
	return out, true
}

// LocalDef returns the single plain definition of a local variable of this function (nil when it has none or several).
func (g *FG) LocalDef(o types.Object) ast.Expr {
	g.buildLocalDefs()
	def := g.localDefs[o]
	// a definition that is just another single-definition local (x := y, as left behind by an expanded helper's results)
	// stands for that local's definition
	for depth := 0; def != nil && depth < 5; depth++ {
		id, ok := unparen(def).(*ast.Ident)
		if !ok {
			break
		}
		next, has := g.localDefs[objOf(g.Info, id)]
		if !has {
			break
		}
		def = next
	}
	return def
}

// edgeImpliesDeep is edgeImplies that also looks through boolean locals with a single definition:
// crossing "if flag" where flag := a && !b establishes a and ¬b.
func (g *FG) edgeImpliesDeep(e *GEdge, atom func(c ast.Expr, pol int) bool) bool {
	if e.Cond == nil || e.Tag != nil {
		return false
	}
	var deep func(depth int) func(a ast.Expr, p int) bool
	deep = func(depth int) func(a ast.Expr, p int) bool {
		return func(a ast.Expr, p int) bool {
			if atom(a, p) {
				return true
			}
			id, ok := a.(*ast.Ident)
			if !ok || depth >= 4 {
				return false
			}
			o := g.Info.Uses[id]
			if o == nil {
				return false
			}
			if def := g.LocalDef(o); def != nil {
				if g.staleAt(def, e.From) {
					return false
				}
				return condHolds(def, p, deep(depth+1))
			}
			if p > 0 {
				// flag := <init>; flag = flag && X (each on every path to the edge): flag true ⇒ X
				for _, x := range g.conjUpdates(o, e.From) {
					if condHolds(x, p, deep(depth+1)) {
						return true
					}
				}
			}
			return false
		}
	}
	return condHolds(e.Cond, e.Pol, deep(0))
}

// staleAt: can a local variable mentioned in the definition expression be assigned on a path from the definition to the
// vertex at (without passing the definition again)? Then the flag may describe a value that no longer exists at the branch
// and the fact is not used.
func (g *FG) staleAt(def ast.Expr, at *GNode) bool {
	vars := map[types.Object]bool{}
	ast.Inspect(def, func(n ast.Node) bool {
		if id, ok := n.(*ast.Ident); ok {
			if v, ok := g.Info.Uses[id].(*types.Var); ok && !v.IsField() && v.Pkg() != nil && v.Parent() != v.Pkg().Scope() {
				vars[v] = true
			}
		}
		return true
	})
	if len(vars) == 0 {
		return false
	}
	defNode := g.NodeOf(def)
	if defNode == nil || at == nil {
		return true
	}
	var writers []*GNode
	for _, x := range g.Nodes {
		if x == defNode || x.N == nil {
			continue
		}
		w := false
		switch s := x.N.(type) {
		case *ast.AssignStmt:
			for _, l := range s.Lhs {
				if id := identOf(l); id != nil {
					o := g.Info.Uses[id]
					if o == nil {
						o = g.Info.Defs[id]
					}
					if o != nil && vars[o] {
						w = true
					}
				}
			}
		case *ast.IncDecStmt:
			if o := objOf(g.Info, s.X); o != nil && vars[o] {
				w = true
			}
		case *ast.RangeStmt:
			for _, l := range []ast.Expr{s.Key, s.Value} {
				if l != nil {
					if o := objOf(g.Info, l); o != nil && vars[o] {
						w = true
					}
				}
			}
		}
		if w {
			writers = append(writers, x)
		}
	}
	if len(writers) == 0 {
		return false
	}
	notDef := func(x *GNode) bool { return x == defNode }
	fromDef, _ := g.Reach([]*GNode{defNode}, notDef, nil)
	for _, w := range writers {
		if !fromDef[w] {
			continue
		}
		if w == at {
			return true
		}
		fromW, _ := g.Reach([]*GNode{w}, notDef, nil)
		if fromW[at] {
			return true
		}
	}
	return false
}

func identOf(e ast.Expr) *ast.Ident {
	id, _ := unparen(e).(*ast.Ident)
	return id
}

// conjUpdates: when every assignment to local o other than its first definition has the form o = o && X, returns the X of
// those updates that lie on every path to node at (so that o true at `at` implies X); nil otherwise.
func (g *FG) conjUpdates(o types.Object, at *GNode) []ast.Expr {
	body := g.F.Body()
	if !definedIn(g.Info, body, o) {
		return nil
	}
	var xs []ast.Expr
	var stmts []ast.Node
	bad, first := false, true
	ast.Inspect(body, func(n ast.Node) bool {
		switch s := n.(type) {
		case *ast.AssignStmt:
			for i, l := range s.Lhs {
				if objOf(g.Info, l) != o {
					continue
				}
				if first {
					first = false // the declaration / first definition: anything
					continue
				}
				if s.Tok == token.ASSIGN && len(s.Lhs) == len(s.Rhs) {
					var conj []ast.Expr
					var flat func(e ast.Expr)
					flat = func(e ast.Expr) {
						if be, ok := unparen(e).(*ast.BinaryExpr); ok && be.Op == token.LAND {
							flat(be.X)
							flat(be.Y)
							return
						}
						conj = append(conj, unparen(e))
					}
					flat(s.Rhs[i])
					self := false
					for _, cj := range conj {
						if id, ok := cj.(*ast.Ident); ok && g.Info.Uses[id] == o {
							self = true
						}
					}
					if self && len(conj) > 1 {
						for _, cj := range conj {
							if id, ok := cj.(*ast.Ident); ok && g.Info.Uses[id] == o {
								continue
							}
							xs, stmts = append(xs, cj), append(stmts, s)
						}
						continue
					}
				}
				bad = true
			}
		case *ast.UnaryExpr:
			if s.Op == token.AND && objOf(g.Info, s.X) == o {
				bad = true
			}
		case *ast.ValueSpec:
			for _, nm := range s.Names {
				if g.Info.Defs[nm] == o {
					first = false
				}
			}
		}
		return true
	})
	if bad || at == nil {
		return nil
	}
	var out []ast.Expr
	for i, st := range stmts {
		nd := g.NodeOf(st)
		if nd == nil {
			continue
		}
		if ok, _ := g.DominatedByNodes(at, map[*GNode]bool{nd: true}); ok {
			out = append(out, xs[i])
		}
	}
	return out
}

func (g *FG) buildLocalDefs() {
	if g.localDefs == nil {
		fgByBody.Store(g.F.Body(), g)
		g.localDefs = map[types.Object]ast.Expr{}
		cnt := map[types.Object]int{}
		body := g.F.Body()
		ast.Inspect(body, func(n ast.Node) bool {
			switch s := n.(type) {
			case *ast.AssignStmt:
				for i, l := range s.Lhs {
					o := objOf(g.Info, l)
					if o == nil {
						continue
					}
					if (s.Tok == token.DEFINE || s.Tok == token.ASSIGN) && len(s.Lhs) == len(s.Rhs) {
						cnt[o]++
						g.localDefs[o] = s.Rhs[i]
					} else {
						cnt[o] += 2
					}
				}
			case *ast.IncDecStmt:
				if o := objOf(g.Info, s.X); o != nil {
					cnt[o] += 2
				}
			case *ast.UnaryExpr:
				if s.Op == token.AND {
					if o := objOf(g.Info, s.X); o != nil {
						cnt[o] += 2
					}
				}
			case *ast.RangeStmt:
				for _, e := range []ast.Expr{s.Key, s.Value} {
					if e != nil {
						if o := objOf(g.Info, e); o != nil {
							cnt[o] += 2
						}
					}
				}
			case *ast.ValueSpec:
				for i, nm := range s.Names {
					if o := g.Info.Defs[nm]; o != nil {
						if i < len(s.Values) && len(s.Values) == len(s.Names) {
							cnt[o]++
							g.localDefs[o] = s.Values[i]
						} else if len(s.Values) != 0 {
							cnt[o] += 2
						} else {
							cnt[o]++ // zero value declaration: later assignment makes it 2
							delete(g.localDefs, o)
						}
					}
				}
			}
			return true
		})
		for o, c := range cnt {
			if c != 1 {
				delete(g.localDefs, o)
			}
		}
		// only true locals of this function body
		for o := range g.localDefs {
			if !definedIn(g.Info, body, o) {
				delete(g.localDefs, o)
			}
		}
	}
}

// ReturnsUnder evaluates the (single) result of every return statement reachable under env.
// known=false when some reachable return cannot be folded. Values are deduplicated by ExactString.
func (g *FG) ReturnsUnder(env Env) (vals []constant.Value, known bool) {
	seen := g.ReachUnder(env)
	env = g.withLocals(env)
	known = true
	have := map[string]bool{}
	for x := range seen {
		rs, ok := x.N.(*ast.ReturnStmt)
		if !ok {
			continue
		}
		if len(rs.Results) != 1 {
			known = false
			continue
		}
		v, ok := evalConst(g.Info, rs.Results[0], env)
		if !ok {
			known = false
			continue
		}
		if !have[v.ExactString()] {
			have[v.ExactString()] = true
			vals = append(vals, v)
		}
	}
	return vals, known
}

// enumConsts lists the package-level constants of named type t declared in t's package, in value order.
func enumConsts(t *types.Named) []*types.Const {
	var out []*types.Const
	if t == nil || t.Obj().Pkg() == nil {
		return nil
	}
	sc := t.Obj().Pkg().Scope()
	for _, n := range sc.Names() {
		if c, ok := sc.Lookup(n).(*types.Const); ok && types.Identical(c.Type(), t) {
			out = append(out, c)
		}
	}
	// sort by value then name
	for i := 1; i < len(out); i++ {
		for j := i; j > 0; j-- {
			a, b := out[j-1], out[j]
			if constant.Compare(b.Val(), token.LSS, a.Val()) || (constant.Compare(b.Val(), token.EQL, a.Val()) && b.Name() < a.Name()) {
				out[j-1], out[j] = b, a
			} else {
				break
			}
		}
	}
	return out
}

// ResolveUnder resolves an identifier of a local variable to the expression it holds at vertex at, given the vertices
// reachable under env (seen): its single definition, or — for a variable assigned on several paths — the last assignment that
// reaches at inside the reachable sub-graph, provided it is unique. Other expressions (and unresolvable identifiers) are
// returned unchanged.
func (g *FG) ResolveUnder(env Env, seen map[*GNode]bool, e ast.Expr, at *GNode) ast.Expr {
	for depth := 0; depth < 4; depth++ {
		id, ok := unparen(e).(*ast.Ident)
		if !ok {
			return e
		}
		o, isVar := g.Info.Uses[id].(*types.Var)
		if !isVar || o.IsField() {
			return e
		}
		if def := g.LocalDef(o); def != nil {
			e = def
			continue
		}
		body := g.F.Body()
		if !definedIn(g.Info, body, o) && !g.isParam(o) {
			return e
		}
		env2 := g.withLocals(env)
		type defn struct {
			x   *GNode
			rhs ast.Expr
		}
		var defs []defn
		for x := range seen {
			switch s := x.N.(type) {
			case *ast.AssignStmt:
				if len(s.Lhs) == len(s.Rhs) && (s.Tok == token.ASSIGN || s.Tok == token.DEFINE) {
					for i, l := range s.Lhs {
						if objOf(g.Info, l) == o {
							defs = append(defs, defn{x, s.Rhs[i]})
						}
					}
				} else if len(s.Rhs) == 1 && (s.Tok == token.ASSIGN || s.Tok == token.DEFINE) {
					// a, b = f(): the variable holds one of the call's results; the call expression stands for it
					for _, l := range s.Lhs {
						if objOf(g.Info, l) == o {
							defs = append(defs, defn{x, s.Rhs[0]})
						}
					}
				}
			case *ast.ValueSpec:
				for i, nm := range s.Names {
					if g.Info.Defs[nm] == o && i < len(s.Values) {
						defs = append(defs, defn{x, s.Values[i]})
					}
				}
			}
		}
		within := func(from *GNode) map[*GNode]bool {
			r, _ := g.Reach([]*GNode{from}, func(y *GNode) bool { return !seen[y] }, func(ed *GEdge) bool { return !edgeOpen(g.Info, ed, env2) })
			return r
		}
		var last []defn
		for _, d := range defs {
			rd := within(d.x)
			if !rd[at] && d.x != at {
				continue
			}
			shadowed := false
			for _, d2 := range defs {
				if d2.x != d.x && rd[d2.x] {
					if r2 := within(d2.x); r2[at] {
						shadowed = true
					}
				}
			}
			if !shadowed {
				last = append(last, d)
			}
		}
		if len(last) != 1 {
			return e
		}
		e = last[0].rhs
	}
	return e
}

// isParam: is o a parameter (or named result) of the function this graph belongs to? A re-assigned parameter resolves like a
// local; where no assignment reaches, the identifier stands for the argument.
func (g *FG) isParam(o types.Object) bool {
	if g.F == nil {
		return false
	}
	var ft *ast.FuncType
	if g.F.Decl != nil {
		ft = g.F.Decl.Type
	} else if g.F.Lit != nil {
		ft = g.F.Lit.Type
	}
	if ft == nil {
		return false
	}
	for _, fl := range []*ast.FieldList{ft.Params, ft.Results} {
		if fl == nil {
			continue
		}
		for _, f := range fl.List {
			for _, nm := range f.Names {
				if g.Info.Defs[nm] == o {
					return true
				}
			}
		}
	}
	return false
}

// definedIn: is o a variable defined by an identifier inside body (a true local of it)? Decided on the definitions recorded by
// the type checker, not on source positions: a body into which helpers were expanded holds nodes from several places.
var definedCache sync.Map // *ast.BlockStmt → map[types.Object]bool

func definedIn(info *types.Info, body *ast.BlockStmt, o types.Object) bool {
	if body == nil || o == nil {
		return false
	}
	var set map[types.Object]bool
	if v, ok := definedCache.Load(body); ok {
		set = v.(map[types.Object]bool)
	} else {
		set = map[types.Object]bool{}
		ast.Inspect(body, func(n ast.Node) bool {
			if id, isID := n.(*ast.Ident); isID {
				if d := info.Defs[id]; d != nil {
					set[d] = true
				}
			}
			if cc, isCC := n.(*ast.CaseClause); isCC {
				if d := info.Implicits[cc]; d != nil {
					set[d] = true
				}
			}
			return true
		})
		definedCache.Store(body, set)
	}
	return set[o]
}

// FieldDef: for v.f with v a local that has a single definition which is a composite literal (possibly behind &) and no
// later store into v.f (or v as a whole), the value the literal gives to f; nil otherwise. The definition statement is returned
// too, so that the caller can ask where it sits.
func (g *FG) FieldDef(e ast.Expr) (ast.Expr, ast.Node) {
	sel, ok := unparen(e).(*ast.SelectorExpr)
	if !ok {
		return nil, nil
	}
	v := objOf(g.Info, sel.X)
	if v == nil {
		return nil, nil
	}
	def := g.LocalDef(v)
	if def == nil {
		return nil, nil
	}
	d := unparen(def)
	if u, isU := d.(*ast.UnaryExpr); isU && u.Op == token.AND {
		d = unparen(u.X)
	}
	cl, isCL := d.(*ast.CompositeLit)
	if !isCL {
		return nil, nil
	}
	fv, _ := fieldOf(g.Info, sel)
	if fv == nil {
		return nil, nil
	}
	// no store into the field
	written := false
	ast.Inspect(g.F.Body(), func(n ast.Node) bool {
		switch s := n.(type) {
		case *ast.AssignStmt:
			for _, l := range s.Lhs {
				if f2, base := fieldOf(g.Info, l); f2 == fv && base != nil && sameVar(g.Info, base, v) {
					written = true
				}
			}
		case *ast.IncDecStmt:
			if f2, base := fieldOf(g.Info, s.X); f2 == fv && base != nil && sameVar(g.Info, base, v) {
				written = true
			}
		}
		return !written
	})
	if written {
		return nil, nil
	}
	var val ast.Expr
	for _, el := range cl.Elts {
		kv, isKV := el.(*ast.KeyValueExpr)
		if !isKV {
			return nil, nil
		}
		if id, isID := kv.Key.(*ast.Ident); isID && g.Info.Uses[id] == types.Object(fv) {
			val = kv.Value
		}
	}
	if val == nil {
		// a field the literal does not mention holds its zero value
		val = zeroLit(g.Info, fv.Type(), cl.Pos())
		if val == nil {
			return nil, nil
		}
	}
	// the statement holding the definition
	var stmt ast.Node
	ast.Inspect(g.F.Body(), func(n ast.Node) bool {
		if as, isAs := n.(*ast.AssignStmt); isAs {
			for _, r := range as.Rhs {
				if unparen(r) == unparen(def) || r == def {
					stmt = as
				}
			}
		}
		return stmt == nil
	})
	return val, stmt
}

// zeroLit: a literal expression for the zero value of a basic type (with its constant recorded), nil for other types.
func zeroLit(info *types.Info, t types.Type, pos token.Pos) ast.Expr {
	b, ok := t.Underlying().(*types.Basic)
	if !ok {
		return nil
	}
	switch {
	case b.Info()&types.IsBoolean != 0:
		id := &ast.Ident{NamePos: pos, Name: "false"}
		info.Uses[id] = types.Universe.Lookup("false")
		info.Types[id] = types.TypeAndValue{Type: t, Value: constant.MakeBool(false)}
		return id
	case b.Info()&types.IsInteger != 0:
		l := &ast.BasicLit{ValuePos: pos, Kind: token.INT, Value: "0"}
		info.Types[l] = types.TypeAndValue{Type: t, Value: constant.MakeInt64(0)}
		return l
	case b.Info()&types.IsString != 0:
		l := &ast.BasicLit{ValuePos: pos, Kind: token.STRING, Value: `""`}
		info.Types[l] = types.TypeAndValue{Type: t, Value: constant.MakeString("")}
		return l
	}
	return nil
}
