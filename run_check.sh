#!/bin/sh
# usage: run_check.sh <property> <quick|thorough> [extra verifcheck flags]
# Rebuilds nothing of /repo (static analysis): the analyser loads /repo's current working tree on every run.
cd "$(dirname "$0")" || exit 2
export GOFLAGS=-mod=mod GOPROXY=off GOSUMDB=off GOTOOLCHAIN=local GOWORK=off
unset GOARCH GOOS
if [ ! -x bin/verifcheck ] || [ -n "$(find checker -name '*.go' -newer bin/verifcheck 2>/dev/null | head -1)" ]; then
  (cd checker && go build -o ../bin/verifcheck .) || { echo "cannot build verifcheck"; exit 2; }
fi
p="$1"; t="${2:-${VERIF_TIER:-quick}}"; shift 2
exec ./bin/verifcheck -property "$p" -tier "$t" "$@"
