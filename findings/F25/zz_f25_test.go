package trace_test

// F25 reproduction: recordingSpan.AddLink stores the caller's link.Attributes slice itself (events copy theirs in
// NewEventConfig). The exported snapshot shares that backing array: when the caller re-uses its slice after AddLink — even
// after End — the exported link changes.

import (
	"context"
	"testing"

	"go.opentelemetry.io/otel/attribute"
	sdktrace "go.opentelemetry.io/otel/sdk/trace"
	"go.opentelemetry.io/otel/sdk/trace/tracetest"
	"go.opentelemetry.io/otel/trace"
)

func TestF25LinkAttributesAliasCallerSlice(t *testing.T) {
	sr := tracetest.NewSpanRecorder()
	tp := sdktrace.NewTracerProvider(sdktrace.WithSpanProcessor(sr))
	_, span := tp.Tracer("f25").Start(context.Background(), "s")
	attrs := []attribute.KeyValue{attribute.String("k", "recorded")}
	sc := trace.NewSpanContext(trace.SpanContextConfig{TraceID: trace.TraceID{1}, SpanID: trace.SpanID{2}})
	span.AddLink(trace.Link{SpanContext: sc, Attributes: attrs})
	span.End()
	attrs[0] = attribute.String("k", "changed after End") // the caller re-uses its slice
	got := sr.Ended()[0].Links()[0].Attributes[0].Value.AsString()
	if got != "recorded" {
		t.Errorf("exported link attribute = %q, want %q: the snapshot changed after End", got, "recorded")
	}
}
