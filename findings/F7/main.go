package main

import (
	"fmt"
	"math"

	"go.opentelemetry.io/otel/attribute"
)

func main() {
	s := attribute.NewSet(attribute.Float64Slice("k", []float64{math.NaN()}))
	fmt.Println("F7: set with Float64Slice NaN equals itself:", s.Equals(&s), "(want true)")
	m := map[attribute.Distinct]int{}
	m[s.Equivalent()]++
	m[s.Equivalent()]++
	fmt.Println("    distinct map entries for the same set:", len(m), "(want 1)")
	t := attribute.NewSet(attribute.Float64("k", math.NaN()))
	fmt.Println("    scalar NaN set equals itself:", t.Equals(&t))
}
