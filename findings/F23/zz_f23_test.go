package metric_test

// F23 reproduction: histogram collect methods assign Min/Max only under !noMinMax and Sum only under !noSum, into data
// points recycled from the destination (reset does not zero them). pipeline.produce hands each instrument the slot of the
// previous collection by position; when an earlier instrument reports nothing the positions shift and a NoMinMax histogram
// inherits another instrument's minimum and maximum.

import (
	"context"
	"testing"

	sdkmetric "go.opentelemetry.io/otel/sdk/metric"
	"go.opentelemetry.io/otel/sdk/metric/metricdata"
)

func TestF23StaleMinMax(t *testing.T) {
	ctx := context.Background()
	rdr := sdkmetric.NewManualReader(sdkmetric.WithTemporalitySelector(func(sdkmetric.InstrumentKind) metricdata.Temporality {
		return metricdata.DeltaTemporality
	}))
	view := sdkmetric.NewView(sdkmetric.Instrument{Name: "b"}, sdkmetric.Stream{
		Aggregation: sdkmetric.AggregationExplicitBucketHistogram{Boundaries: []float64{10}, NoMinMax: true},
	})
	mp := sdkmetric.NewMeterProvider(sdkmetric.WithReader(rdr), sdkmetric.WithView(view))
	m := mp.Meter("f23")
	a, _ := m.Int64Histogram("a")
	b, _ := m.Int64Histogram("b")

	var rm metricdata.ResourceMetrics
	a.Record(ctx, 777)
	b.Record(ctx, 1)
	if err := rdr.Collect(ctx, &rm); err != nil {
		t.Fatal(err)
	}
	b.Record(ctx, 2) // only b this cycle: it moves into a's slot
	if err := rdr.Collect(ctx, &rm); err != nil {
		t.Fatal(err)
	}
	for _, sm := range rm.ScopeMetrics {
		for _, md := range sm.Metrics {
			if md.Name != "b" {
				continue
			}
			for _, dp := range md.Data.(metricdata.Histogram[int64]).DataPoints {
				if v, ok := dp.Min.Value(); ok {
					t.Errorf("NoMinMax histogram b reports Min=%d", v)
				}
				if v, ok := dp.Max.Value(); ok {
					t.Errorf("NoMinMax histogram b reports Max=%d", v)
				}
			}
		}
	}
}
