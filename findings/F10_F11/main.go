package main

import (
	"context"
	"fmt"

	sdkmetric "go.opentelemetry.io/otel/sdk/metric"
	"go.opentelemetry.io/otel/sdk/metric/metricdata"
)

func run(maxSize, maxScale int32, vals ...float64) {
	r := sdkmetric.NewManualReader()
	view := sdkmetric.NewView(sdkmetric.Instrument{Name: "h"}, sdkmetric.Stream{Aggregation: sdkmetric.AggregationBase2ExponentialHistogram{MaxSize: maxSize, MaxScale: maxScale}})
	mp := sdkmetric.NewMeterProvider(sdkmetric.WithReader(r), sdkmetric.WithView(view))
	h, _ := mp.Meter("m").Float64Histogram("h")
	for _, v := range vals {
		h.Record(context.Background(), v)
	}
	var rm metricdata.ResourceMetrics
	_ = r.Collect(context.Background(), &rm)
	for _, sm := range rm.ScopeMetrics {
		for _, m := range sm.Metrics {
			switch d := m.Data.(type) {
			case metricdata.ExponentialHistogram[float64]:
				for _, p := range d.DataPoints {
					var tot uint64 = p.ZeroCount
					for _, c := range p.PositiveBucket.Counts {
						tot += c
					}
					for _, c := range p.NegativeBucket.Counts {
						tot += c
					}
					fmt.Printf("  expo point: count=%d bucket-total=%d scale=%d sum=%v\n", p.Count, tot, p.Scale, p.Sum)
				}
			default:
				fmt.Printf("  data is %T (view's aggregation rejected?)\n", d)
			}
		}
	}
}

func main() {
	fmt.Println("F10: MaxSize 1, record 0.5 then 2 (want count == bucket total)")
	run(1, 20, 0.5, 2)
	fmt.Println("F11: MaxScale -20 (documented range [-10, 20]; want the view's aggregation rejected or scale >= -10)")
	run(160, -20, 1, 2, 3)
}
