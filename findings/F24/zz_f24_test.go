package metric

// F24 reproduction: envDuration multiplies the parsed number of milliseconds by time.Millisecond without an upper bound.
// OTEL_METRIC_EXPORT_INTERVAL=10000000000000 (1e13 ms) overflows time.Duration to a negative value; NewPeriodicReader hands it
// to time.NewTicker in its run goroutine, which panics ("non-positive interval for NewTicker") and kills the process. The test
// stops at the configuration (a panic in another goroutine cannot be recovered).

import "testing"

func TestF24ExportIntervalOverflow(t *testing.T) {
	t.Setenv("OTEL_METRIC_EXPORT_INTERVAL", "10000000000000")
	t.Setenv("OTEL_METRIC_EXPORT_TIMEOUT", "10000000000000")
	conf := newPeriodicReaderConfig(nil)
	if conf.interval <= 0 {
		t.Errorf("interval = %v: time.NewTicker panics on a non-positive interval", conf.interval)
	}
	if conf.timeout <= 0 {
		t.Errorf("timeout = %v", conf.timeout)
	}
}
