package trace_test

// F22 reproduction: TracerProvider.Shutdown with an already-cancelled context returns at the first
// iteration of its processor loop: no processor is ever shut down (later Shutdown calls return nil at the
// isShutdown test) and the processor list stays published, so spans of tracers handed out earlier are
// still exported after Shutdown has returned.

import (
	"context"
	"sync/atomic"
	"testing"
	"time"

	sdktrace "go.opentelemetry.io/otel/sdk/trace"
)

type f22Exporter struct{ exports, shutdowns atomic.Int32 }

func (e *f22Exporter) ExportSpans(_ context.Context, s []sdktrace.ReadOnlySpan) error {
	e.exports.Add(int32(len(s)))
	return nil
}
func (e *f22Exporter) Shutdown(context.Context) error { e.shutdowns.Add(1); return nil }

func TestF22ShutdownWithCancelledContext(t *testing.T) {
	exp := &f22Exporter{}
	tp := sdktrace.NewTracerProvider(sdktrace.WithSyncer(exp))
	tr := tp.Tracer("before")
	ctx, cancel := context.WithCancel(context.Background())
	cancel()
	_ = tp.Shutdown(ctx)                  // returns context.Canceled
	_ = tp.Shutdown(context.Background()) // returns nil: "already shut down"
	// the simple processor shuts its exporter down in a goroutine when the context is already done
	for i := 0; i < 200 && exp.shutdowns.Load() == 0; i++ {
		time.Sleep(5 * time.Millisecond)
	}
	if n := exp.shutdowns.Load(); n != 1 {
		t.Errorf("exporter shut down %d times, want exactly once", n)
	}
	_, span := tr.Start(context.Background(), "after shutdown")
	span.End()
	if n := exp.exports.Load(); n != 0 {
		t.Errorf("%d span(s) exported after Shutdown returned", n)
	}
}
