package main

import (
	"fmt"
	"os"

	sdktrace "go.opentelemetry.io/otel/sdk/trace"
)

func try(name string, f func()) {
	defer func() {
		if r := recover(); r != nil {
			fmt.Printf("F3 %s: PANIC %v\n", name, r)
		}
	}()
	f()
	fmt.Printf("F3 %s: ok\n", name)
}

func main() {
	try("WithMaxQueueSize(-1)", func() { sdktrace.NewBatchSpanProcessor(nil, sdktrace.WithMaxQueueSize(-1)) })
	try("WithMaxExportBatchSize(-1)", func() { sdktrace.NewBatchSpanProcessor(nil, sdktrace.WithMaxExportBatchSize(-1)) })
	os.Setenv("OTEL_BSP_MAX_QUEUE_SIZE", "-5")
	try("OTEL_BSP_MAX_QUEUE_SIZE=-5", func() { sdktrace.NewBatchSpanProcessor(nil) })
}
