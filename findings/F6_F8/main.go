package main

import (
	"context"
	"fmt"

	"go.opentelemetry.io/otel/baggage"
	"go.opentelemetry.io/otel/propagation"
	"go.opentelemetry.io/otel/trace"
	"strings"
)

func main() {
	// F6: a tracestate key containing a non-ASCII character whose low byte is an ASCII letter/digit
	ts, err := trace.ParseTraceState("aš=1")
	fmt.Printf("F6: ParseTraceState(\"a\\u0161=1\") err=%v len=%d (want an error)\n", err, ts.Len())
	c := propagation.MapCarrier{"traceparent": "00-4bf92f3577b34da6a3ce929d0e0e4736-00f067aa0ba902b7-01", "tracestate": "aš=1"}
	ctx := propagation.TraceContext{}.Extract(context.Background(), c)
	out := propagation.MapCarrier{}
	propagation.TraceContext{}.Inject(ctx, out)
	fmt.Printf("    re-injected tracestate: %q\n", out["tracestate"])

	// F8: constructor accepts a member larger than 4096 bytes, the parser rejects its serialisation
	m, err := baggage.NewMemberRaw("k", strings.Repeat("v", 5000))
	fmt.Println("F8: NewMemberRaw err =", err)
	b, err := baggage.New(m)
	fmt.Println("    New err =", err, "(want: list-member too large)")
	_, err = baggage.Parse(b.String())
	fmt.Println("    Parse(New(...).String()) err =", err)
}
