package main

import (
	"context"
	"fmt"
	"os"
	"sync"

	prom "github.com/prometheus/client_golang/prometheus"
	"go.opentelemetry.io/otel/attribute"
	otelprom "go.opentelemetry.io/otel/exporters/prometheus"
	sdkmetric "go.opentelemetry.io/otel/sdk/metric"
)

func main() {
	reg := prom.NewRegistry()
	exp, err := otelprom.New(otelprom.WithRegisterer(reg), otelprom.WithResourceAsConstantLabels(attribute.NewAllowKeysFilter("service.name")))
	if err != nil {
		panic(err)
	}
	mp := sdkmetric.NewMeterProvider(sdkmetric.WithReader(exp))
	if len(os.Args) > 1 && os.Args[1] == "race" {
		// F14: concurrent first scrapes of fresh exporters (run with -race)
		for it := 0; it < 300; it++ {
			reg := prom.NewRegistry()
			exp, _ := otelprom.New(otelprom.WithRegisterer(reg), otelprom.WithResourceAsConstantLabels(attribute.NewAllowKeysFilter("service.name")))
			mp := sdkmetric.NewMeterProvider(sdkmetric.WithReader(exp))
			c, _ := mp.Meter("m").Int64Counter("requests")
			c.Add(context.Background(), 1)
			var wg sync.WaitGroup
			start := make(chan struct{})
			for i := 0; i < 8; i++ {
				wg.Add(1)
				go func() { defer wg.Done(); <-start; _, _ = reg.Gather() }()
			}
			close(start)
			wg.Wait()
		}
		fmt.Println("F14: concurrent scrapes done")
		return
	}
	// F13: a monotonic counter named exactly "total"
	c, _ := mp.Meter("m").Int64Counter("total")
	c.Add(context.Background(), 1)
	mfs, err := reg.Gather()
	fmt.Println("F13: gathered", len(mfs), "families, err =", err)
	for _, mf := range mfs {
		fmt.Println("   ", mf.GetName())
	}
}
