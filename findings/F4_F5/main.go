package main

import (
	"context"
	"fmt"
	"strings"

	"go.opentelemetry.io/otel/log"
	sdklog "go.opentelemetry.io/otel/sdk/log"
)

type proc struct{ overwrite bool }

func (p *proc) OnEmit(_ context.Context, r *sdklog.Record) error {
	if p.overwrite {
		r.AddAttributes(log.String("k", strings.Repeat("x", 50)))
	}
	n := 0
	r.WalkAttributes(func(kv log.KeyValue) bool {
		n++
		if kv.Value.Kind() == log.KindString {
			fmt.Printf("  attr %s len=%d\n", kv.Key, len(kv.Value.AsString()))
		}
		return true
	})
	fmt.Printf("  kept=%d dropped=%d\n", n, r.DroppedAttributes())
	return nil
}
func (p *proc) Shutdown(context.Context) error   { return nil }
func (p *proc) ForceFlush(context.Context) error { return nil }

func main() {
	fmt.Println("F4: value length limit 5, a processor overwrites key k with 50 chars (want len=5)")
	lp := sdklog.NewLoggerProvider(sdklog.WithAttributeValueLengthLimit(5), sdklog.WithProcessor(&proc{overwrite: true}))
	var r log.Record
	r.AddAttributes(log.String("k", "abc"))
	lp.Logger("x").Emit(context.Background(), r)

	fmt.Println("F5: count limit 0, two attributes offered (documented: none recorded; want kept=0 dropped=2)")
	lp2 := sdklog.NewLoggerProvider(sdklog.WithAttributeCountLimit(0), sdklog.WithProcessor(&proc{}))
	var r2 log.Record
	r2.AddAttributes(log.String("a", "1"), log.String("b", "2"))
	lp2.Logger("x").Emit(context.Background(), r2)
}
