package main

import (
	"context"
	"fmt"
	"os"

	sdktrace "go.opentelemetry.io/otel/sdk/trace"
)

type cnt struct{ name string; n int }

func (c *cnt) OnStart(context.Context, sdktrace.ReadWriteSpan) {}
func (c *cnt) OnEnd(sdktrace.ReadOnlySpan)                     { c.n++ }
func (c *cnt) Shutdown(context.Context) error                  { return nil }
func (c *cnt) ForceFlush(context.Context) error                { return nil }

func main() {
	if len(os.Args) > 1 && os.Args[1] == "f16" {
		// F16: a simple span processor built around a nil exporter
		p := sdktrace.NewSimpleSpanProcessor(nil)
		fmt.Println("shutdown:", p.Shutdown(context.Background()))
		return
	}
	p1, p2, p3 := &cnt{name: "p1"}, &cnt{name: "p2"}, &cnt{name: "p3"}
	tp := sdktrace.NewTracerProvider()
	tp.RegisterSpanProcessor(p1)
	tp.RegisterSpanProcessor(p2)
	tp.UnregisterSpanProcessor(p3) // never registered: must change nothing
	_, sp := tp.Tracer("x").Start(context.Background(), "s")
	sp.End()
	fmt.Printf("p1=%d p2=%d p3=%d (want 1 1 0)\n", p1.n, p2.n, p3.n)
}
