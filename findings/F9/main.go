package main

import (
	"context"
	"fmt"
	"net/http"
	"net/http/httptest"
	"strings"
	"sync/atomic"
	"time"

	"go.opentelemetry.io/otel/exporters/otlp/otlptrace/otlptracehttp"
	sdktrace "go.opentelemetry.io/otel/sdk/trace"
)

func main() {
	var calls atomic.Int32
	var t0, t1 time.Time
	srv := httptest.NewServer(http.HandlerFunc(func(w http.ResponseWriter, r *http.Request) {
		if calls.Add(1) == 1 {
			t0 = time.Now()
			w.Header().Set("Retry-After", "2") // seconds
			w.WriteHeader(http.StatusServiceUnavailable)
			return
		}
		t1 = time.Now()
		w.WriteHeader(http.StatusOK)
	}))
	defer srv.Close()
	ctx := context.Background()
	exp, err := otlptracehttp.New(ctx, otlptracehttp.WithEndpoint(strings.TrimPrefix(srv.URL, "http://")), otlptracehttp.WithInsecure(),
		otlptracehttp.WithRetry(otlptracehttp.RetryConfig{Enabled: true, InitialInterval: time.Millisecond, MaxInterval: time.Millisecond, MaxElapsedTime: time.Minute}))
	if err != nil {
		panic(err)
	}
	tp := sdktrace.NewTracerProvider(sdktrace.WithSyncer(exp))
	_, sp := tp.Tracer("x").Start(ctx, "s")
	sp.End()
	_ = tp.Shutdown(ctx)
	fmt.Printf("F9: server said Retry-After: 2 (seconds); attempts=%d, retried after %v (want >= 2s)\n", calls.Load(), t1.Sub(t0).Round(time.Millisecond))
}
