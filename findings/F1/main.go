package main

import (
	"context"
	"fmt"
	"io"
	rt "runtime/trace"
	"sync"
	"sync/atomic"

	sdktrace "go.opentelemetry.io/otel/sdk/trace"
)

type cnt struct{ n atomic.Int64 }

func (c *cnt) OnStart(context.Context, sdktrace.ReadWriteSpan) {}
func (c *cnt) OnEnd(sdktrace.ReadOnlySpan)                     { c.n.Add(1) }
func (c *cnt) Shutdown(context.Context) error                  { return nil }
func (c *cnt) ForceFlush(context.Context) error                { return nil }

func main() {
	if err := rt.Start(io.Discard); err != nil {
		panic(err)
	}
	defer rt.Stop()
	c := &cnt{}
	tp := sdktrace.NewTracerProvider(sdktrace.WithSpanProcessor(c))
	tr := tp.Tracer("x")
	const N = 200000
	for i := 0; i < N; i++ {
		_, sp := tr.Start(context.Background(), "s")
		var wg sync.WaitGroup
		wg.Add(2)
		go func() { defer wg.Done(); sp.End() }()
		go func() { defer wg.Done(); sp.End() }()
		wg.Wait()
	}
	fmt.Printf("spans=%d OnEnd calls=%d duplicates=%d\n", N, c.n.Load(), c.n.Load()-N)
}
